"""C23 — the parser never crashes and locates syntax errors; a parse leaves no state behind.

Scope (DESIGN §7): everything above the C++ extension — the ALL(*) recogniser on the repository's ATN, create_ast
(AST constructor + DAG), error positions, inter-parse state (through the stand-in's model of g_state).
Spaces: (a) all token sequences of length <= k over a 57-token alphabet (in the JVM; every accepted text also goes
through the real create_ast), (b) all strings of length <= 2 over a 41-character alphabet, (c) every corpus
script under every single-token deletion / duplication / adjacent swap, (d) nesting depth ladders,
(e) all histories of length <= 3 over 7 parse events, each compared with the same text parsed in a fresh process.
"""
import itertools
import os
import pickle

from vtlmc import harness
from vtlmc.checks.C31 import TOKENS, corpus_texts

CHARS = ["a", "Z", "_", "1", "0", ".", " ", "\t", "\n", "\r", ";", ":", "=", "<", "-", ">", "(", ")", "[", "]", "{", "}", ",",
         "+", "*", "/", "#", "|", '"', "'", "\\", "\x00", "\x7f", "é", "€", " ", "😀", "/*", "*/", "//", "$"]


def expanded_len(line, tabw):
    return len(line.replace("\r", "").replace("\t", " " * tabw))


def parse_outcome(V, text):
    """-> (class, detail, problems) for create_ast(text)"""
    from frontend import fe
    out = harness.call(V.create_ast, text)
    problems = []
    if out[0] == "ok":
        return ("ast", None, problems)
    _, kind, cls, code, msg = out
    if kind != "vtl":
        if "StaleParseTree" in msg:
            problems.append("stale-parse-tree")
        else:
            problems.append("raw-error:%s" % cls)
        return ("raw", cls, problems)
    if cls == "VTLSyntaxError":
        import re
        m = re.match(r"VTL syntax error at line (\d+), column (\d+):", msg)
        if not m:
            problems.append("syntax-error-without-position")
        else:
            line, col = int(m.group(1)), int(m.group(2))
            lines = (text + "\n").split("\n")
            tabw = fe.tables().tab_width
            if not (1 <= line <= len(lines)):
                problems.append("line-outside-input")
            elif not (1 <= col <= expanded_len(lines[line - 1], tabw) + 1):
                problems.append("column-outside-line")
    return ("vtl", cls, problems)


def report(rec, space, text, klass, detail, problems):
    for p in problems:
        rec.violation("C23:%s:%s" % (space, p), "create_ast(%r) -> %s %s: %s" % (text[:200], klass, detail, p), {"text": text})


SMALL = ["DS_1", ":=", ";", "(", ")", "+", "-", "1", "[", "]", "filter", ","]


def enum_tokens(item, rec):
    k, first, small = item
    TOKENS = SMALL if small else globals()["TOKENS"]
    V = harness.boot()
    from frontend import fe
    r = fe.enumerate_tokens(k, TOKENS, cmp=False, first=first)
    rec.count("jvm_texts", r["total"])
    rec.count("jvm_accepted", r["accepted"])
    rec.add("error_kinds", [first * 1000 + i for i in range(r["error_kinds"])])
    for p in r["problems"]:
        kind, _, text = p.partition(":")
        if kind == "badpos":
            rec.violation("C23:token-sequences:error-position-outside-input", "recogniser reports a position outside %r" % text, {"text": text})
        elif kind == "crash":
            rec.violation("C23:token-sequences:recogniser-crash", text[:300], {"text": text})
    rec.case(("tokens-jvm", k, TOKENS[first]), "recognised", n=r["total"])
    rec.count("accepted_through_create_ast", len(r["accepted_texts"]))
    for t in r["accepted_texts"]:
        klass, detail, problems = parse_outcome(V, t)
        report(rec, "token-sequences", t, klass, detail, problems)
        rec.case(("tokens-ast", klass, detail), klass + (":" + detail if detail else ""),
                 sample={"text": t, "outcome": klass} if klass == "ast" else None)


def py_texts(item, rec):
    space, texts = item
    V = harness.boot()
    for t in texts:
        klass, detail, problems = parse_outcome(V, t)
        report(rec, space, t, klass, detail, problems)
        rec.case((space, klass, detail, len(t) if space == "chars" else 0), klass + (":" + detail if detail else ""),
                 sample={"text": t, "outcome": klass} if space == "chars" and klass == "vtl" else None)


def mutate_corpus(item, rec):
    texts = item
    V = harness.boot()
    from frontend import fe
    for t in texts:
        r = fe.mutations(t, cmp=False)
        rec.count("jvm_texts", r["total"])
        for p in r["problems"]:
            kind, _, text = p.partition(":")
            rec.violation("C23:corpus-mutations:%s" % ("error-position-outside-input" if kind == "badpos" else "recogniser-crash"),
                          text[:300], {"text": text})
        rec.case(("mut-jvm", min(r["tokens"] // 10, 30)), "recognised", n=max(1, r["total"]))
        for m in r["accepted_texts"][:60]:
            klass, detail, problems = parse_outcome(V, m)
            report(rec, "corpus-mutations", m, klass, detail, problems)
            rec.case(("mut-ast", klass, detail), klass + (":" + detail if detail else ""))


NEST = {
    "parens": lambda d: "DS_r := " + "(" * d + "DS_1" + ")" * d + ";",
    "unary-minus": lambda d: "DS_r := " + "-" * d + "DS_1;",
    "not": lambda d: "DS_r := " + "not " * d + "DS_1;",
    "if": lambda d: "DS_r := " + "if a then b else " * d + "c;",
    "clauses": lambda d: "DS_r := DS_1" + "[filter Me_1 > 0]" * d + ";",
    "binary-chain": lambda d: "DS_r := DS_1" + " + DS_1" * d + ";",
    "join-nest": lambda d: "DS_r := " + "inner_join(" * d + "DS_1" + ")" * d + ";",
    "calls": lambda d: "DS_r := " + "abs(" * d + "DS_1" + ")" * d + ";",
}


def nesting(item, rec):
    name, depths = item
    V = harness.boot()
    import sys
    for d in depths:
        t = NEST[name](d)
        klass, detail, problems = parse_outcome(V, t)
        for p in problems:
            # finding key by construct and failure class; the depth bucket says how deep it has to be
            bucket = "depth<=100" if d <= 100 else ("depth<=1000" if d <= 1000 else "depth>1000")
            rec.violation("C23:nesting:%s:%s:%s" % (name, bucket, p), "create_ast(%s nested %d deep) -> %s %s" % (name, d, klass, detail),
                          {"nest": name, "depth": d})
        rec.case(("nest", name, d, klass), klass + (":" + detail if detail else ""), sample={"construct": name, "depth": d, "outcome": klass} if d == depths[-1] else None)


EVENTS = {
    "valid-A": "DS_r := DS_1 + DS_2;",
    "valid-B-comments": "/* c1 */ DS_x <- DS_1 [ calc Me_2 := Me_1 * 2 ]; // c2\nDS_y := DS_x;",
    "parser-error": "DS_r := DS_1 + ;",
    "lexer-error": "DS_r := DS_1 $ 2;",
    "empty": "",
    "comment-only": "// nothing here",
    "deep": "DS_r := " + "(" * 60 + "DS_1" + ")" * 60 + ";",
}


def observe(V, text):
    """what one parse lets a caller observe: AST (or error) via create_ast, and AST + comments via create_ast_with_comments"""
    a = harness.call(V.create_ast, text)
    a = ("ok", repr(a[1])) if a[0] == "ok" else tuple(a)
    b = harness.call(V.create_ast_with_comments, text)
    b = ("ok", repr(b[1])) if b[0] == "ok" else tuple(b)
    p = harness.call(V.prettify, text)
    p = ("ok", p[1]) if p[0] == "ok" else tuple(p)
    return (a, b, p)


def fresh_observations():
    r, w = os.pipe()
    pid = os.fork()
    if pid == 0:
        try:
            os.close(r)
            from frontend import fe
            fe._State.proc = None
            V = harness.boot()
            res = {}
            for k, t in EVENTS.items():
                # each in its own grandchild would be purer; the first parse of a process is what "fresh" means here,
                # so fork again per event
                rr, ww = os.pipe()
                p2 = os.fork()
                if p2 == 0:
                    os.close(rr)
                    fe._State.proc = None
                    with os.fdopen(ww, "wb") as f:
                        pickle.dump(observe(V, t), f)
                    fe.shutdown()
                    os._exit(0)
                os.close(ww)
                with os.fdopen(rr, "rb") as f:
                    res[k] = pickle.loads(f.read())
                os.waitpid(p2, 0)
            with os.fdopen(w, "wb") as f:
                pickle.dump(res, f)
        finally:
            os._exit(0)
    os.close(w)
    with os.fdopen(r, "rb") as f:
        data = f.read()
    os.waitpid(pid, 0)
    return pickle.loads(data)


def histories(item, rec):
    hists, fresh = item
    V = harness.boot()
    for h in hists:
        last = None
        for ev in h:
            last = observe(V, EVENTS[ev])
        ok = last == fresh[h[-1]]
        rec.case(("history", len(h), h[-1], ok), "as-fresh" if ok else "differs",
                 sample={"history": list(h), "as_fresh": ok} if len(h) == 3 else None)
        if not ok:
            which = [n for n, x, y in zip(("create_ast", "create_ast_with_comments", "prettify"), last, fresh[h[-1]]) if x != y]
            rec.violation("C23:history:after-%s:%s:%s-differs" % (h[-2] if len(h) > 1 else "nothing", h[-1], "+".join(which)),
                          "after parses %s the parse of %r gives %s, fresh process gives %s" % (
                              list(h[:-1]), EVENTS[h[-1]][:60], str(last)[:300], str(fresh[h[-1]])[:300]), {"history": list(h)})


class Check:
    ID = "C23"
    LEVEL = "exploration"
    RULE = ("(a) all token sequences of length <= k over 57 tokens and of length <= k+2 over 12 tokens parsed by the recogniser "
            "(positions checked), accepted ones through create_ast; (b) all strings of length <= 2 over 41 characters/digraphs through create_ast; (c) all "
            "single-token deletions/duplications/swaps of corpus scripts; (d) 8 nesting constructs x depth ladder; (e) all "
            "sequences of <= 3 parse events over 7 events vs a fresh process. outcome must be AST or VTLEngineException with "
            "in-range line/column. distinct key = (space, outcome class, error class/shape)")
    ASSUMPTIONS = ["memory safety and native crashes of the compiled bindings.cpp cannot be observed here (extension not buildable offline)",
                   "parse-tree lifetime is modelled by the stand-in's generation check"]

    def run(self, tier, seed, rec):
        harness.boot()
        k = 3 if tier == "quick" else 4
        k2 = 5 if tier == "quick" else 6
        items = [(k, i, False) for i in range(len(TOKENS))] + [(k2, i, True) for i in range(len(SMALL))]
        harness.pmap(enum_tokens, harness.seeded_order(items, seed), rec)
        if rec.counters.get("accepted_through_create_ast", 0) == 0:
            rec.tool_error("vacuous: no enumerated token sequence was accepted, create_ast never exercised on this space")
        chars = [""] + CHARS + [a + b for a in CHARS for b in CHARS]
        if tier == "thorough":
            chars += [a + b + c for a in CHARS[:16] for b in CHARS[:16] for c in CHARS[:16]]
        harness.pmap(py_texts, [("chars", ch) for ch in harness.chunks(chars, 150)], rec)
        corpus = corpus_texts()
        sel = sorted(corpus, key=len)[:120] if tier == "quick" else [c for c in corpus if len(c) < 4000]
        harness.pmap(mutate_corpus, list(harness.chunks(harness.seeded_order(sel, seed), 8)), rec)
        ladder = [1, 2, 5, 10, 20, 50, 100, 200, 400, 800] + ([1500, 3000, 5000] if tier == "thorough" else [])
        harness.pmap(nesting, [(n, ladder) for n in sorted(NEST)], rec)
        fresh = fresh_observations()
        evs = sorted(EVENTS)
        hists = [h for n in (1, 2, 3) for h in itertools.product(evs, repeat=n)]
        harness.pmap(histories, [(ch, fresh) for ch in harness.chunks(hists, 40)], rec)
        from frontend import fe
        if fe._State.stale_events:
            rec.count("stale_events_main", len(fe._State.stale_events))
        return {"exhaustive": True, "token_alphabet": len(TOKENS), "k": k, "char_texts": len(chars), "histories": len(hists),
                "corpus_scripts_mutated": len(sel)}

    def replay(self, data):
        V = harness.boot()
        if "text" in data:
            return bool(parse_outcome(V, data["text"])[2])
        if "nest" in data:
            return bool(parse_outcome(V, NEST[data["nest"]](data["depth"]))[2])
        fresh = fresh_observations()
        rec = harness.Recorder()
        histories(([tuple(data["history"])], fresh), rec)
        return bool(rec.violations)

"""C13 — dataset load / release schedule is safe and results are selected correctly.

Model checking of an abstract table store driven by the *real* schedule (DAGAnalyzer.ds_structure on the real
AST) for every dependency graph within the bound, with every model trace replayed against the implementation:
run() executes under the connection proxy and the real catalogue events, abstracted to the model's alphabet
{load, exec, fetch, release}, must equal the model trace and satisfy the same invariants.  What each statement
*reads* comes from the generator (ground truth), never from the analyser under test.
"""
import itertools
import os

from vtlmc import faults, harness
from vtlmc.gen import depgraphs as G


# ---------------------------------------------------------------------------------------------------
# the abstract table store
# ---------------------------------------------------------------------------------------------------

class Store:
    def __init__(self, reads, inputs, returnable):
        self.reads, self.inputs, self.returnable = reads, set(inputs), set(returnable)
        self.live, self.loaded, self.released, self.fetched, self.executed = set(), set(), [], [], []
        self.problems = []
        self.states = set()
        self.transitions = 0
        self._snap()

    def _snap(self):
        self.states.add((len(self.executed), frozenset(self.live), frozenset(self.released), frozenset(self.fetched)))

    def step(self, ev):
        kind, t = ev
        self.transitions += 1
        if kind == "load":
            if t in self.loaded:
                self.problems.append(("loaded-twice", t))
            if t not in self.inputs:
                self.problems.append(("loaded-non-input", t))
            self.loaded.add(t)
            self.live.add(t)
        elif kind == "exec":
            for r in sorted(self.reads.get(t, ())):
                if r not in self.live:
                    self.problems.append(("read-not-live", "%s reads %s" % (t, r)))
            if t in self.executed:
                self.problems.append(("executed-twice", t))
            self.executed.append(t)
            self.live.add(t)
        elif kind == "fetch":
            if t not in self.live:
                self.problems.append(("fetch-not-live", t))
            self.fetched.append(t)
        elif kind == "release":
            if t not in self.live:
                self.problems.append(("released-not-live", t))
            if t in self.released:
                self.problems.append(("released-twice", t))
            pending = [s for s, rs in self.reads.items() if t in rs and s not in self.executed]
            if pending:
                self.problems.append(("released-before-last-reader", "%s still needed by %s" % (t, pending)))
            if t in self.returnable and t not in self.fetched:
                self.problems.append(("released-before-fetch", t))
            self.released.append(t)
            self.live.discard(t)
        self._snap()

    def finish(self, must_release=True):
        for s in self.reads:
            if s not in self.executed:
                self.problems.append(("never-executed", s))
        for t in sorted(self.returnable):
            if t not in self.fetched:
                self.problems.append(("never-fetched", t))
        for t in self.fetched:
            if t not in self.returnable:
                self.problems.append(("fetched-not-returnable", t))
        if must_release:
            for t in sorted(self.live):
                if t not in self.returnable or t in self.inputs:
                    self.problems.append(("never-released", t))
        return self.problems


def model_trace(schedule, order_names, returnable):
    """the trace the schedule prescribes (what execute_queries is specified to do with it)"""
    ev = []
    fetched = set()
    for k, name in enumerate(order_names, start=1):
        for t in schedule.insertion.get(k, []):
            ev.append(("load", t))
        ev.append(("exec", name))
        for t in schedule.deletion.get(k, []):
            if t not in schedule.global_inputs and t in returnable:
                ev.append(("fetch", t))
                fetched.add(t)
            ev.append(("release", t))
    for name in order_names:
        if name in returnable and name not in fetched:
            ev.append(("fetch", name))
    return ev


def impl_trace(session, inputs):
    """abstract the proxy's catalogue events to the model alphabet"""
    ev = []
    seen_fetch = set()
    for _, method, kind, name in session.events:
        if kind == "create" and name in inputs:
            ev.append(("load", name))
        elif kind == "exec":
            ev.append(("exec", name))
        elif kind == "select" and name not in inputs:
            if name not in seen_fetch or ev[-1] != ("fetch", name):
                if ev and ev[-1] == ("fetch", name):
                    continue
                ev.append(("fetch", name))
            seen_fetch.add(name)
        elif kind == "copy":
            pass
        elif kind == "drop" and not name.startswith("_temp"):
            ev.append(("release", name))
    # the fetch path issues 'SELECT * ... LIMIT 0' then the projection SELECT: collapse consecutive duplicates
    out = []
    for e in ev:
        if out and out[-1] == e and e[0] == "fetch":
            continue
        out.append(e)
    return out


def explore_graphs(item, rec):
    graphs, k, impl, forms, seed = item
    V = harness.boot()
    from vtlengine.AST.DAG import DAGAnalyzer
    faults.install()
    structs = G.structures(k)
    inputs = ["I%d" % j for j in range(1, k + 1)]
    states = set()
    for graph in graphs:
        n = len(graph)
        reads = G.reads(graph)
        exp = G.expected(graph, k)
        for mask in itertools.product((False, True), repeat=n):
            script = G.render(graph, mask)
            ast = V.create_ast(script)
            order_names = [c.left.value for c in ast.children]
            sched = DAGAnalyzer.ds_structure(ast)
            for rop in (True, False):
                names = ["S%d" % (i + 1) for i in range(n)]
                returnable = {nm for i, nm in enumerate(names) if mask[i] or not rop}
                # ---- model level: the real analyser's schedule drives the abstract store
                mt = model_trace(sched, order_names, returnable)
                st = Store(reads, inputs, returnable)
                for e in mt:
                    st.step(e)
                probs = st.finish()
                states |= st.states
                rec.count("transitions", st.transitions)
                shape = (n, tuple(len(o) for o in graph), sum(mask), rop)
                for kind, what in probs:
                    rec.violation("C13:model:%s" % kind, "schedule of %r (rop=%s): %s %s; trace %s" % (script, rop, kind, what, mt),
                                  {"graph": graph, "k": k, "mask": mask, "rop": rop, "level": "model"})
                rec.case(("model", shape, tuple(sorted(set(p[0] for p in probs)))), "model-ok" if not probs else "model-bad",
                         nontrivial=n > 1 or len(graph[0]) > 1)
                if not impl:
                    continue
                # ---- implementation level: real run under the proxy; trace must equal the model's
                for form in forms:
                    dps = datapoints(form, k, graph)
                    out, s = faults.run_traced(lambda: V.run(script, structs, dps, return_only_persistent=rop))
                    replay = {"graph": graph, "k": k, "mask": mask, "rop": rop, "level": "impl", "form": form}
                    if out[0] != "ok":
                        rec.case(("impl", shape, form, "error"), "impl-error")
                        rec.violation("C13:impl:run-fails:%s" % out[2], "run(%r, rop=%s, %s) raises %s" % (script, rop, form, str(out[1:])[:300]), replay)
                        continue
                    it = impl_trace(s, set(inputs))
                    used_inputs = set().union(*reads.values()) & set(inputs)
                    st2 = Store(reads, inputs, returnable)
                    for e in it:
                        st2.step(e)
                    probs2 = st2.finish()
                    rec.count("transitions", st2.transitions)
                    states |= st2.states
                    for kind, what in probs2:
                        rec.violation("C13:impl:%s" % kind, "run(%r, rop=%s, %s): %s %s; events %s" % (script, rop, form, kind, what, it), replay)
                    if it != mt:
                        rec.violation("C13:impl:trace-differs-from-schedule", "run(%r, rop=%s): catalogue events %s, schedule prescribes %s" % (script, rop, it, mt), replay)
                    else:
                        rec.count("traces_matched")
                    res = out[1]
                    if set(res) != returnable:
                        rec.violation("C13:impl:returned-keys", "run(%r, rop=%s) returned %s, expected %s" % (script, rop, sorted(res), sorted(returnable)), replay)
                    bad_val = None
                    if form != "missing":
                        for nm, ds in res.items():
                            rows = {r["Id_1"]: r["Me_1"] for r in harness.dataset_rows(ds)}
                            if set(rows) != {1, 2} or any(not harness.num_eq(rows[i], exp[nm][i]) for i in (1, 2)):
                                bad_val = (nm, rows, exp[nm])
                        if bad_val:
                            rec.violation("C13:impl:wrong-value", "run(%r, rop=%s): %s = %s, expected %s" % (script, rop, bad_val[0], bad_val[1], bad_val[2]), replay)
                    rec.case(("impl", shape, form, tuple(sorted(set(p[0] for p in probs2))), it == mt), "impl-ok" if not probs2 and it == mt and not bad_val else "impl-bad",
                             sample={"script": script, "return_only_persistent": rop, "form": form, "trace": [list(e) for e in it]} if n >= 3 else None)
    rec.count("states", len(states))


def explore_clause_graphs(item, rec):
    """statements reading scalars produced by other statements from inside a clause (model + implementation level)"""
    graphs, seed = item
    V = harness.boot()
    from vtlengine.AST.DAG import DAGAnalyzer
    faults.install()
    structs, dps = G.structures(1), G.frames(1)
    states = set()
    for graph in graphs:
        st = G.clause_statements(graph)
        n = len(st)
        reads = {nm: rd for nm, _, rd in st}
        exp = G.clause_expected(graph)
        for mask in itertools.product((False, True), repeat=n):
            for order in (tuple(range(n)), tuple(reversed(range(n)))):
                script = G.clause_render(graph, mask, order)
                ast = V.create_ast(script)
                order_names = [c.left.value for c in ast.children]
                sched = DAGAnalyzer.ds_structure(ast)
                for rop in (True, False):
                    returnable = {st[i][0] for i in range(n) if mask[i] or not rop}
                    mt = model_trace(sched, order_names, returnable)
                    store = Store(reads, ["I1"], returnable)
                    for e in mt:
                        store.step(e)
                    probs = store.finish()
                    states |= store.states
                    rec.count("transitions", store.transitions)
                    replay = {"clause_graph": graph, "mask": mask, "rop": rop, "order": order}
                    for kind, what in probs:
                        rec.violation("C13:model:clause-reference:%s" % kind, "schedule of %r (rop=%s): %s %s; trace %s" % (script, rop, kind, what, mt), replay)
                    out, s = faults.run_traced(lambda: V.run(script, structs, dps, return_only_persistent=rop))
                    if out[0] != "ok":
                        rec.case(("impl-clause", n, "error"), "impl-error")
                        rec.violation("C13:impl:clause-reference:run-fails:%s" % out[2], "run(%r, rop=%s) raises %s" % (script, rop, str(out[1:])[:300]), replay)
                        continue
                    it = impl_trace(s, {"I1"})
                    st2 = Store(reads, ["I1"], returnable)
                    for e in it:
                        st2.step(e)
                    probs2 = st2.finish()
                    states |= st2.states
                    rec.count("transitions", st2.transitions)
                    for kind, what in probs2:
                        rec.violation("C13:impl:clause-reference:%s" % kind, "run(%r, rop=%s): %s %s; events %s" % (script, rop, kind, what, it), replay)
                    if it == mt:
                        rec.count("traces_matched")
                    else:
                        rec.violation("C13:impl:clause-reference:trace-differs-from-schedule", "run(%r): events %s, schedule prescribes %s" % (script, it, mt), replay)
                    res = out[1]
                    bad = set(res) != returnable
                    for nm, v in res.items():
                        if hasattr(v, "data") and v.data is not None:
                            rows = {r["Id_1"]: r["Me_1"] for r in harness.dataset_rows(v)}
                            bad = bad or any(not harness.num_eq(rows.get(i), exp[nm][i]) for i in (1, 2))
                        elif hasattr(v, "value"):
                            bad = bad or not harness.num_eq(v.value, exp[nm])
                    if bad:
                        rec.violation("C13:impl:clause-reference:wrong-result", "run(%r, rop=%s) returned %s" % (script, rop, sorted(res)), replay)
                    rec.case(("impl-clause", n, sum(mask), rop, order[0] == 0, tuple(sorted(set(p[0] for p in probs + probs2))), it == mt, bad),
                             "impl-ok" if not probs and not probs2 and it == mt and not bad else "impl-bad")
    rec.count("states", len(states))


def datapoints(form, k, graph):
    fr = G.frames(k)
    if form == "df":
        return fr
    d = os.path.join(harness.scratch(), "c13in")
    os.makedirs(d, exist_ok=True)
    from pathlib import Path
    out = {}
    for nm, df in fr.items():
        if form == "missing" and nm == "I1":
            continue
        p = os.path.join(d, nm + ".csv")
        if not os.path.exists(p):
            df.to_csv(p, index=False)
        out[nm] = Path(p) if form in ("csv", "missing") else df
    return out


class Check:
    ID = "C13"
    LEVEL = "model_checking"
    RULE = ("every dependency graph with <= N statements over <= K global inputs (statement i reads any non-empty subset "
            "of earlier statements and inputs) x every persistent/temporary labelling x return_only_persistent in {T,F}; "
            "model level: the real DAGAnalyzer schedule drives an abstract table store (invariants on every state); "
            "implementation level: run() under the connection proxy, catalogue events abstracted to {load,exec,fetch,release} "
            "must equal the model trace. distinct key = (level, graph shape, labelling size, rop, form, problems)")
    ASSUMPTIONS = ["catalogue events are observed at the DuckDB connection (CREATE TABLE / CREATE TABLE AS / SELECT / DROP)",
                   "statement expressions are sums of their operands; other operators' dependency extraction is C12's and the corpus' business"]

    def run(self, tier, seed, rec):
        harness.boot()
        items = []
        if tier == "quick":
            plan = [(1, 2, True, ("df", "csv", "missing")), (2, 2, True, ("df", "csv", "missing")), (3, 1, True, ("df",)),
                    (3, 2, False, ()), (4, 1, False, ())]
        else:
            plan = [(1, 3, True, ("df", "csv", "missing")), (2, 3, True, ("df", "csv", "missing")), (3, 2, True, ("df", "csv")),
                    (3, 3, True, ("df",)), (4, 1, True, ("df",)), (4, 2, True, ("df",)), (3, 4, False, ()), (5, 1, False, ())]
        total = 0
        for n, k, impl, forms in plan:
            gs = list(G.all_graphs(n, k))
            total += len(gs)
            size = max(1, min(200, len(gs) // 64 + 1)) if impl else 400
            for ch in harness.chunks(harness.seeded_order(gs, seed), size):
                items.append((ch, k, impl, forms, seed))
        harness.pmap(explore_graphs, items, rec)
        cgs = list(G.clause_graphs(2, 2)) if tier == "quick" else list(G.clause_graphs(2, 2)) + list(G.clause_graphs(3, 1))
        harness.pmap(explore_clause_graphs, [(ch, seed) for ch in harness.chunks(harness.seeded_order(cgs, seed), 2)], rec)
        if rec.counters.get("traces_matched", 0) == 0:
            rec.tool_error("no implementation trace matched its model trace (proxy abstraction broken?)")
        return {"states": rec.counters.get("states", 0), "transitions": rec.counters.get("transitions", 0),
                "traces_validated_against_impl": rec.counters.get("traces_matched", 0), "graphs": total,
                "exhaustive": True, "bound": [p[:2] for p in plan]}

    def replay(self, data):
        rec = harness.Recorder()
        if "clause_graph" in data:
            g = data["clause_graph"]
            explore_clause_graphs(([(tuple(tuple(x) for x in g[0]), tuple((b, tuple(c)) for b, c in g[1]))], 0), rec)
            return bool(rec.violations)
        graph = tuple(tuple(o) for o in data["graph"])
        explore_graphs(([graph], data["k"], data["level"] == "impl", (data.get("form", "df"),), 0), rec)
        return bool(rec.violations)

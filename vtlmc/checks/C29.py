"""C29 — names that differ only in letter case stay distinct (explorer E1, oracles O1 + O4 = vtlmc/ref_c02.py).

Programs.  Components whose names are the case variants Me_1 / me_1 / ME_1 and datasets DS_1 / ds_1 (results DS_r / ds_r,
join aliases d1 / D1), in every operator context:
  load          ``DS_r <- DS_1;``
  clause        every well-typed chain of length 1 over a 40-clause alphabet (calc that creates / overwrites a variant,
                calc identifier / attribute, keep, drop, rename away / into a variant / swap, filter on one / two
                variants) from 21 start structures (2 and 3 variants at a time as measures, as identifier + measure, as
                attribute + measure; and a single variant, the program creating the second one), and every well-typed
                chain of length 2 over a 12-clause alphabet from the three measure structures {Me_1}, {Me_1, me_1},
                {Me_1, me_1, ME_1}; a chain is a case only if two names that differ only in case meet in one structure
  binary        dataset + dataset, dataset * scalar
  join          inner_join with aliases (variants in one operand, variants in different operands, join bodies calc / keep
                / rename, a clause applied to the join result), aliases d1 / D1
  aggregation   sum(... group by), aggr clause creating / reading variants, group by an identifier variant
  analytic      sum / first_value over a partition inside calc
  set           union, intersect, setdiff
  cast          cast inside calc
  datasets      DS_1 / ds_1 as inputs (load, binary, join, union, clause), ds_1 as a transient result next to the input
                DS_1, results DS_r / ds_r
``origin`` says where the clash comes from: ``input`` (the input structure already holds two variants) or ``created``
(the program brings the second variant into a structure).

Inputs.  One fixed relation per operand over the 2 x 2 identifier grid; every variant has its own values (1.., 10..,
100.., with a null each), so that a value taken from the wrong variant is visible.

Oracle.  O1: the same program with the names replaced by clearly distinct ones (Me_1 -> Ma, me_1 -> Mb, ME_1 -> Mc,
ds_1 -> DS_b, ds_r -> DS_s, D1 -> dx2) is executed; it must succeed (else the program is not a member of the space: tooling
error) and the case-variant program must give the same components and datapoints modulo the renaming; the components of
the result must be those semantic_analysis announces.  O4: where the reference evaluator models the program it
must agree as well (and it must agree with the engine on the renamed program, else the oracle is not calibrated).

Finding key  C29:<context>/<origin>:<which names collide: measures | id+measure | attr+measure | datasets | aliases>:<raw-error:<class> |
vtl-error:<code> | wrong-value | missing-component | wrong-structure>.
"""
import itertools
import re

from vtlmc import harness, refbase
from vtlmc import ref_c02 as R
from vtlmc.checks.C02 import ds_from_json, ds_json, judge_dataset, to_rel
from vtlmc.refbase import AT, DS, ID, ME

V = ("Me_1", "me_1", "ME_1")
NEUTRAL = {"Me_1": "Ma", "me_1": "Mb", "ME_1": "Mc", "ds_1": "DS_b", "ds_r": "DS_s", "D1": "dx2"}
BACK = {v: k for k, v in NEUTRAL.items()}
GRID = [(1, "A"), (1, "B"), (2, "A"), (2, "B")]
VAL = {"Me_1": [1.0, 2.0, None, 4.0], "me_1": [10.0, None, 30.0, 40.0], "ME_1": [None, 200.0, 300.0, 400.0],
       "Mz": [0.5, 0.25, None, 0.75], "Mz2": [-1.0, -2.0, -3.0, None]}
IDVAL = [7, 8, 9, 10]
WORD = re.compile(r'"[^"]*"|[A-Za-z_][A-Za-z0-9_]*')


def neutral_text(script):
    return WORD.sub(lambda m: NEUTRAL.get(m.group(0), m.group(0)), script)


def neutral_ds(d):
    return DS(NEUTRAL.get(d.name, d.name), [(NEUTRAL.get(c[0], c[0]),) + tuple(c[1:]) for c in d.comps],
              [{NEUTRAL.get(k, k): v for k, v in r.items()} for r in d.rows])


# ---------------------------------------------------------------------------------------------------
# input datasets
# ---------------------------------------------------------------------------------------------------

def dataset(name, comps, variant=0, cells=(0, 1, 2, 3)):
    """comps: [(name, role)]; Number measures / attributes, Integer identifiers; ``variant`` shifts the values"""
    cs = [("Id_1", "Integer", ID), ("Id_2", "String", ID)]
    for n, role in comps:
        cs.append((n, "Integer" if role == ID else "Number", role))
    rows = []
    for j in cells:
        r = {"Id_1": GRID[j][0], "Id_2": GRID[j][1]}
        for n, role in comps:
            if role == ID:
                r[n] = IDVAL[j]
            else:
                v = VAL[n][j]
                r[n] = None if v is None else v + 1000.0 * variant
        rows.append(r)
    return DS(name, cs, rows)


def structures():
    """-> [(label, origin, [(name, role)])]: the start structures (Mz is an extra, never clashing measure)"""
    out = []
    sets = [(V[0], V[1]), (V[0], V[2]), (V[1], V[2]), V]
    for s in sets:
        out.append(("measures-%d" % len(s), "input", [(n, ME) for n in s] + [("Mz", ME)]))
        for special, role, tag in ((0, ID, "id+measure"), (0, AT, "attr+measure"), (-1, ID, "id+measure"), (-1, AT, "attr+measure")):
            sp = s[special]
            out.append(("%s-%d" % (tag, len(s)), "input", [(n, role if n == sp else ME) for n in s] + [("Mz", ME)]))
    for x in V:
        out.append(("single-measure", "created", [(x, ME), ("Mz", ME)]))
        out.append(("single-identifier", "created", [(x, ID), ("Mz", ME)]))
        out.append(("single-attribute", "created", [(x, AT), ("Mz", ME)]))
    seen, res = set(), []
    for lab, origin, comps in out:
        k = tuple(comps)
        if k not in seen:
            seen.add(k)
            res.append((lab, origin, comps))
    return res


def clashes(comps):
    """pairs of components of one structure whose names differ only in case -> set of clash classes"""
    out = set()
    for a, b in itertools.combinations(comps, 2):
        if a[0] != b[0] and a[0].lower() == b[0].lower():
            roles = {a[2], b[2]}
            if ID in roles:
                out.add("id+measure" if ME in roles else "id+attribute")
            elif AT in roles:
                out.add("attr+measure" if ME in roles else "attributes")
            else:
                out.add("measures")
    return out


def clash_class(classes):
    for k in ("id+measure", "attr+measure", "measures", "id+attribute", "attributes"):
        if k in classes:
            return k
    return None


# ---------------------------------------------------------------------------------------------------
# clause chains (type directed through the reference evaluator's structure rules)
# ---------------------------------------------------------------------------------------------------

def clause_alphabet_1():
    a = []
    for x, y in itertools.permutations(V, 2):
        a.append(("calc", "calc %s := %s * 2" % (y, x)))
        a.append(("filter", "filter %s < %s" % (x, y)))
        a.append(("rename", "rename %s to %s" % (x, y)))
    for x, y in itertools.combinations(V, 2):
        a.append(("rename", "rename %s to %s, %s to %s" % (x, y, y, x)))
    for x in V:
        y, z = [v for v in V if v != x]
        a.append(("calc", "calc %s := %s + %s" % (x, y, z)))
        a.append(("keep", "keep %s" % x))
        a.append(("drop", "drop %s" % x))
        a.append(("filter", "filter %s > 0" % x))
        a.append(("rename", "rename %s to X9" % x))
        a.append(("rename", "rename Mz to %s" % x))
        a.append(("calc", "calc identifier %s := Id_1 * 10" % x))
        a.append(("calc", "calc attribute %s := Mz" % x))
    a.append(("calc", "calc X9 := Me_1 + me_1"))
    return a


CLAUSES_2 = [("calc", "calc me_1 := Me_1 * 2"), ("calc", "calc ME_1 := Me_1 + me_1"), ("calc", "calc X9 := Me_1 + me_1"),
             ("keep", "keep Me_1"), ("keep", "keep me_1"), ("drop", "drop Me_1"), ("drop", "drop me_1"),
             ("rename", "rename Me_1 to X9"), ("rename", "rename Mz to me_1"), ("rename", "rename Me_1 to me_1, me_1 to Me_1"),
             ("filter", "filter Me_1 < me_1"), ("filter", "filter me_1 > 0")]


def std_comps(comps):
    return [["Id_1", "Integer", ID], ["Id_2", "String", ID]] + [[n, "Integer" if r == ID else "Number", r] for n, r in comps]


def clause_programs(tier="quick"):
    progs = []
    a1 = [(k, t, R.parse_clause(t)) for k, t in clause_alphabet_1()]
    a2 = [(k, t, R.parse_clause(t)) for k, t in CLAUSES_2]
    for lab, origin, comps in structures():
        start = std_comps(comps)
        two = comps in ([("Me_1", ME), ("Mz", ME)], [("Me_1", ME), ("me_1", ME), ("Mz", ME)],
                        [("Me_1", ME), ("me_1", ME), ("ME_1", ME), ("Mz", ME)]) or tier == "thorough"
        seqs = []
        for k, t, c in a1:
            try:
                s1 = R.clause_structure(start, c, strict=True)
            except R.IllTyped:
                continue
            seqs.append(((k,), (t,), clashes(start) | clashes(s1)))
        if two:
            for k, t, c in a2:
                try:
                    s1 = R.clause_structure(start, c, strict=True)
                except R.IllTyped:
                    continue
                for k2, t2, c2 in a2:
                    try:
                        s2 = R.clause_structure(s1, c2, strict=True)
                    except R.IllTyped:
                        continue
                    seqs.append(((k, k2), (t, t2), clashes(start) | clashes(s1) | clashes(s2)))
        for kinds, texts, cl in seqs:
            cc = clash_class(cl)
            if cc is None:
                continue            # no two case variants ever meet: not a case of this property
            progs.append({"context": "clause:" + ">".join(kinds), "origin": origin, "collide": cc,
                          "script": "DS_r <- DS_1%s;" % "".join("[%s]" % t for t in texts),
                          "dss": [dataset("DS_1", comps)], "results": ["DS_r"]})
    return progs


# ---------------------------------------------------------------------------------------------------
# the other operator contexts
# ---------------------------------------------------------------------------------------------------

def other_programs():
    P = []

    def add(context, origin, collide, script, dss, results=("DS_r",)):
        P.append({"context": context, "origin": origin, "collide": collide, "script": script, "dss": dss, "results": list(results)})

    for lab, origin, comps in structures():
        if origin != "input":
            continue
        cc = clash_class(clashes(std_comps(comps)))
        ms = [n for n, r in comps if r == ME and n != "Mz"]
        m, m2 = ms[0], ms[-1]
        idv = [n for n, r in comps if r == ID]
        d1 = dataset("DS_1", comps)
        d2 = dataset("DS_2", comps, variant=1, cells=(0, 1, 3))
        d3 = dataset("DS_3", [("Mz2", ME)], cells=(0, 2, 3))
        add("load", origin, cc, "DS_r <- DS_1;", [d1])
        add("binary:ds+ds", origin, cc, "DS_r <- DS_1 + DS_2;", [d1, d2])
        add("binary:ds*scalar", origin, cc, "DS_r <- DS_1 * 2;", [d1])
        add("join:operand", origin, cc, "DS_r <- inner_join(DS_1 as d1, DS_3 as d2);", [d1, d3])
        add("join:operand>calc", origin, cc, "DS_r <- inner_join(DS_1 as d1, DS_3 as d2)[calc X9 := %s + Mz2];" % m, [d1, d3])
        add("join:body-calc", origin, cc, "DS_r <- inner_join(DS_1 as d1, DS_3 as d2 calc X9 := %s + Mz2);" % m, [d1, d3])
        add("aggregation:sum-group-by", origin, cc, "DS_r <- sum(DS_1 group by Id_1);", [d1])
        add("aggregation:aggr-clause", origin, cc, "DS_r <- DS_1[aggr X9 := sum(%s), Y9 := max(%s) group by Id_1];" % (m, m2), [d1])
        if idv:
            add("aggregation:group-by-variant", origin, cc, "DS_r <- DS_1[aggr X9 := sum(%s) group by %s];" % (m, idv[0]), [d1])
        add("analytic:calc", origin, cc,
            "DS_r <- DS_1[calc X9 := sum(%s over (partition by Id_1)), Y9 := first_value(%s over (partition by Id_1 order by Id_2))];" % (m, m2), [d1])
        add("set:union", origin, cc, "DS_r <- union(DS_1, DS_2);", [d1, d2])
        add("set:intersect", origin, cc, "DS_r <- intersect(DS_1, DS_2);", [d1, d2])
        add("set:setdiff", origin, cc, "DS_r <- setdiff(DS_1, DS_2);", [d1, d2])
        add("cast:calc", origin, cc, "DS_r <- DS_1[calc X9 := cast(%s, string)];" % m, [d1])
    for x in V:
        y, z = [v for v in V if v != x]
        comps = [(x, ME), ("Mz", ME)]
        d1 = dataset("DS_1", comps)
        d2 = dataset("DS_2", comps, variant=1, cells=(0, 1, 3))
        o, cc = "created", "measures"
        add("binary:ds+ds", o, cc, "DS_r <- DS_1[calc %s := %s * 2] + DS_2[calc %s := %s * 3];" % (y, x, y, x), [d1, d2])
        add("aggregation:aggr-clause", o, cc, "DS_r <- DS_1[aggr %s := sum(%s), %s := max(%s) group by Id_1];" % (y, x, z, x), [d1])
        add("aggregation:aggr-clause>calc", o, cc, "DS_r <- DS_1[aggr %s := sum(%s) group by Id_1][calc %s := %s * 2];" % (y, x, z, y), [d1])
        add("analytic:calc", o, cc, "DS_r <- DS_1[calc %s := sum(%s over (partition by Id_1))];" % (y, x), [d1])
        add("set:union", o, cc, "DS_r <- union(DS_1[calc %s := %s * 2], DS_2[calc %s := %s * 3]);" % (y, x, y, x), [d1, d2])
        add("cast:calc", o, cc, "DS_r <- DS_1[calc %s := cast(%s, string)];" % (y, x), [d1])
        for role, cls in ((ME, "measures"), (AT, "attr+measure"), (ID, "id+measure")):
            d4 = dataset("DS_4", [(y, role)], cells=(0, 2, 3))
            add("join:operands", o, cls, "DS_r <- inner_join(DS_1 as d1, DS_4 as d2);", [d1, d4])
            if role != ID:
                add("join:operands>calc", o, cls, "DS_r <- inner_join(DS_1 as d1, DS_4 as d2)[calc %s := %s + %s];" % (z, x, y), [d1, d4])
                add("join:body-calc", o, cls, "DS_r <- inner_join(DS_1 as d1, DS_4 as d2 calc %s := %s + %s);" % (z, x, y), [d1, d4])
                add("join:body-keep", o, cls, "DS_r <- inner_join(DS_1 as d1, DS_4 as d2 keep %s, %s);" % (x, y), [d1, d4])
            add("join:body-rename", o, cls, "DS_r <- inner_join(DS_1 as d1, DS_4 as d2 rename %s to X9);" % x, [d1, d4])
    # dataset names, result names, aliases
    mz = [("Mz", ME)]
    a = dataset("DS_1", mz)
    b = dataset("ds_1", mz, variant=1, cells=(0, 1, 3))
    b2 = dataset("ds_1", [("Mz2", ME)], cells=(0, 2, 3))
    a2 = dataset("DS_2", mz, variant=1, cells=(0, 1, 3))
    o, cc = "input", "datasets"
    add("load", o, cc, "DS_r <- ds_1;", [a, b])
    add("load", o, cc, "DS_r <- DS_1;", [a, b])
    add("binary:ds+ds", o, cc, "DS_r <- DS_1 + ds_1;", [a, b])
    add("binary:ds+ds", o, cc, "DS_r <- ds_1 - DS_1;", [a, b])
    add("join:operands", o, cc, "DS_r <- inner_join(DS_1 as d1, ds_1 as d2);", [a, b2])
    add("set:union", o, cc, "DS_r <- union(DS_1, ds_1);", [a, b])
    add("set:setdiff", o, cc, "DS_r <- setdiff(DS_1, ds_1);", [a, b])
    add("clause:calc", o, cc, "DS_r <- ds_1[calc X9 := Mz + 1];", [a, b])
    add("clause:filter", o, cc, "DS_r <- ds_1[filter Mz > 1000];", [a, b])
    add("aggregation:sum-group-by", o, cc, "DS_r <- sum(ds_1 group by Id_1);", [a, b])
    o = "created"
    add("transient", o, cc, "ds_1 := DS_1 * 2; DS_r <- DS_1 + ds_1;", [a])
    add("transient", o, cc, "ds_1 := DS_1[filter Mz > 0.3]; DS_r <- DS_1[calc X9 := Mz * 3];", [a])
    add("results", o, cc, "DS_r <- DS_1 * 2; ds_r <- DS_1 * 3;", [a], ("DS_r", "ds_r"))
    add("results", o, cc, "ds_r <- DS_1[filter Mz > 0.3]; DS_r <- DS_1[calc X9 := Mz * 3];", [a], ("DS_r", "ds_r"))
    add("transient+result", o, cc, "ds_r := DS_1 * 2; DS_r <- ds_r + DS_1;", [a])
    cc = "aliases"
    add("join:body-rename", o, cc, "DS_r <- inner_join(DS_1 as d1, DS_2 as D1 rename d1#Mz to A9, D1#Mz to B9);", [a, a2])
    add("join:body-calc", o, cc, "DS_r <- inner_join(DS_1 as d1, DS_2 as D1 calc X9 := d1#Mz + D1#Mz keep X9);", [a, a2])
    add("join:body-keep", o, cc, "DS_r <- inner_join(DS_1 as d1, DS_2 as D1 keep d1#Mz);", [a, a2])
    return P


def programs(tier):
    ps = clause_programs(tier) + other_programs()
    seen, out = set(), []
    for p in ps:
        k = (p["script"], tuple((d.name, tuple(d.comps)) for d in p["dss"]))
        if k not in seen:
            seen.add(k)
            out.append(p)
    return out


# ---------------------------------------------------------------------------------------------------
# judging
# ---------------------------------------------------------------------------------------------------

def rel_from_engine(dataset, back):
    """engine Dataset of the renamed program -> expected Rel under the original names"""
    comps = [[back.get(c.name, c.name), getattr(c.data_type, "__name__", str(c.data_type)),
              c.role.value if hasattr(c.role, "value") else str(c.role)] for c in dataset.components.values()]
    rows = [{back.get(k, k): v for k, v in r.items()} for r in (harness.dataset_rows(dataset) or [])]
    return R.Rel(comps, rows)


def kind_of(diffs):
    kinds = [d[0] for d in diffs]
    for kind, _, detail in diffs:
        if kind == "wrong-structure":
            got, exp = {x[0] for x in detail[0]}, {x[0] for x in detail[1]}
            if exp - got:
                return "missing-component"
    if "missing-column" in kinds:
        return "missing-component"
    if "wrong-structure" in kinds:
        return "wrong-structure"
    return "wrong-value"


def short(diffs):
    out = []
    for kind, key, detail in diffs[:3]:
        if kind == "wrong-structure":
            out.append("components observed %s expected %s" % ([x[0] for x in detail[0]], [x[0] for x in detail[1]]))
        elif kind == "wrong-value":
            out.append("datapoint %s: %s observed %r expected %r" % (key, detail[0], detail[1], detail[2]))
        elif kind == "missing-column":
            out.append("datapoint %s carries no value for component %s" % (key, detail))
        else:
            out.append("%s %s" % (kind, key))
    return "; ".join(out)


def examine(script, dss, results):
    """-> (status, kind, text, oracles used): status in ok | violation | invalid (the renamed program fails: not a program of the space)
    | uncalibrated (reference evaluator and engine disagree on the renamed program)"""
    nscript, ndss = neutral_text(script), [neutral_ds(d) for d in dss]
    base = refbase.run(nscript, ndss)
    if base[0] == "err":
        return "invalid", None, "the renamed program %s fails: %s %s %s" % (nscript, base[2], base[3], base[4][:160]), "o1"
    sem = refbase.semantic(script, dss)
    out = refbase.run(script, dss)
    o4, o4_used = None, False
    try:
        o4, _ = R.evaluate(script, {d.name: to_rel(d) for d in dss})
        o4n, _ = R.evaluate(nscript, {d.name: to_rel(d) for d in ndss})
        for n in results:
            d = judge_dataset(base[1][NEUTRAL.get(n, n)], o4n[NEUTRAL.get(n, n)])
            if d:
                return "uncalibrated", None, "reference evaluator disagrees with the engine on the renamed program %s: %s" % (nscript, short(d)), "o1+o4"
        o4_used = True
    except R.NotModelled:
        o4 = None
    except (R.IllTyped, R.RuntimeErr) as e:
        return "uncalibrated", None, "reference evaluator rejects %s: %r" % (script, e), "o1+o4"
    tag = "o1+o4" if o4_used else "o1"
    return _verdict(script, nscript, dss, results, sem, out, base, o4) + (tag,)


def _verdict(script, nscript, dss, results, sem, out, base, o4):
    if sem[0] == "err":
        k = ("raw-error:%s" % sem[2]) if sem[1] == "raw" else ("vtl-error:%s" % sem[3])
        return "violation", k, "semantic_analysis raised %s %s (%s) although the renamed program is accepted" % (sem[2], sem[3], sem[4][:160])
    if out[0] == "err":
        k = ("raw-error:%s" % out[2]) if out[1] == "raw" else ("vtl-error:%s" % out[3])
        return "violation", k, "run raised %s %s (%s); the renamed program %s succeeds" % (out[2], out[3], out[4][:160], nscript)
    for n in results:
        if n not in out[1]:
            return "violation", "missing-component", "result %s is missing from the output %s" % (n, sorted(out[1]))
        exp = rel_from_engine(base[1][NEUTRAL.get(n, n)], BACK)
        diffs = judge_dataset(out[1][n], exp)
        cols = set(out[1][n].data.columns) if out[1][n].data is not None else set()
        lost = [c for c in exp.names() if c not in cols]
        if lost:
            return "violation", "missing-component", "result %s: the returned data has columns %s, component(s) %s of the renamed program's result %s are absent" % (
                n, sorted(cols), lost, exp.names())
        if diffs:
            return "violation", kind_of(diffs), "result %s differs from the renamed program's: %s" % (n, short(diffs))
        announced = sorted(c.name for c in sem[1][n].components.values()) if n in sem[1] else None
        got = sorted(c.name for c in out[1][n].components.values())
        cols = sorted(out[1][n].data.columns) if out[1][n].data is not None else got
        if announced != got or cols != got:
            return "violation", "missing-component", "result %s: semantic_analysis announces %s, run returns components %s with data columns %s" % (
                n, announced, got, cols)
        if o4 is not None:
            diffs = judge_dataset(out[1][n], o4[n])
            if diffs:
                return "violation", kind_of(diffs), "result %s differs from the reference evaluator's: %s" % (n, short(diffs))
    return "ok", None, None


def run_programs(batch, rec):
    harness.boot()
    for p in batch:
        status, kind, text, tag = examine(p["script"], p["dss"], p["results"])
        rec.count("o4_applied" if tag == "o1+o4" else "o1_only")
        ckey = (p["context"], p["origin"], p["collide"])
        if status == "invalid":
            rec.tool_error(text)
            continue
        if status == "uncalibrated":
            rec.tool_error("oracle not calibrated: " + text)
            continue
        if status == "ok":
            rec.case(ckey + ("agree",), "agree-" + tag, sample={"script": p["script"], "origin": p["origin"], "collide": p["collide"]})
            continue
        rec.case(ckey + (kind,), kind)
        key = "C29:%s/%s:%s:%s" % (p["context"], p["origin"], p["collide"], kind)
        what = "%s on %s -> %s" % (p["script"], "; ".join("%s%s=%s" % (d.name, [c[0] + ":" + c[2] for c in d.comps], d.rows) for d in p["dss"]), text)
        rec.violation(key, what, {"script": p["script"], "datasets": [ds_json(d) for d in p["dss"]], "results": p["results"]})


class Check:
    ID = "C29"
    LEVEL = "exploration"
    RULE = ("case = one program (script + input structures) in which two component / dataset / alias names that differ only in "
            "letter case meet: every well-typed clause chain of length 1 over a 40-clause alphabet from 29 start structures "
            "(variants Me_1 / me_1 / ME_1, 2 and 3 at a time, as measures, identifier + measure, attribute + measure, or a "
            "single variant with the program creating the second), length 2 over a 12-clause alphabet from 3 structures; "
            "binary, join (operands, bodies, aliases), aggregation, analytic, set, cast, dataset-name and result-name "
            "contexts per structure. distinct = distinct (context, origin of the clash, which names collide, outcome class); "
            "every case is non-trivial (chains in which no two variants meet are not generated).")
    ASSUMPTIONS = [
        "the renamed program (Me_1->Ma, me_1->Mb, ME_1->Mc, ds_1->DS_b, ds_r->DS_s, D1->dx2) defines the expected result (O1); it must run",
        "a structure difference in which an expected component is absent is reported as missing-component, any other datapoint difference as wrong-value",
        "input data is one fixed relation per operand (the property quantifies over names, not values)",
    ]

    def run(self, tier, seed, rec):
        harness.boot()
        ps = harness.seeded_order(programs(tier), seed)
        contexts = {p["context"].split(":")[0] for p in ps}
        for need in ("load", "clause", "binary", "join", "aggregation", "analytic", "set", "cast", "results", "transient"):
            if need not in contexts:
                rec.tool_error("non-vacuity: no program in context %s" % need)
        harness.pmap(run_programs, list(harness.chunks(ps, 12)), rec)
        if not rec.counters.get("o4_applied"):
            rec.tool_error("non-vacuity: the reference evaluator was never applicable")
        return {"exhaustive": True, "programs": len(ps), "contexts": len({p["context"] for p in ps}),
                "o4_applied": rec.counters.get("o4_applied", 0)}

    def replay(self, data):
        harness.boot()
        status, kind, text, tag = examine(data["script"], [ds_from_json(j) for j in data["datasets"]], data["results"])
        return status == "violation"

"""C14 — writing results to an output folder preserves them exactly.

Configuration lattice {csv, parquet} x {return_only_persistent True, False} x programs, complete.  Programs: a
fixed list of small scripts with inline DataFrame data covering every result column type and every awkward
value (see ``programs()``), and in the thorough tier every successful ``run()`` call of the recorded corpus.

Oracle (O1, differential): the same call WITHOUT ``output_folder`` is the model.  With ``output_folder``:

* the returned mapping has the same names; datasets have the model's components and ``data is None``; scalars
  carry the model's values,
* the folder holds exactly ``<name>.<ext>`` per returned dataset plus ``_scalars.csv`` iff a scalar is returned
  (nothing else, no sub-directory),
* every dataset file read back independently of the engine (an RFC-4180 reader that keeps the quoted/unquoted
  distinction, cross-checked against the ``csv`` module; ``pyarrow`` for Parquet) and typed with the semantic
  structure of the model has the model's columns (same order) and the model's datapoints (as a multiset;
  NaN/NA/None are one null; numbers with relative tolerance 1e-9),
* ``_scalars.csv`` has the header ``name,value`` and one row per returned scalar whose typed value is the
  returned value.
"""
import csv
import io
import math
import os
import shutil

from vtlmc import harness

FORMATS = ("csv", "parquet")
ROPS = (True, False)
REL = 1e-9
SCALARS_FILE = "_scalars.csv"


# ------------------------------------------------------------------------------------------------
# programs
# ------------------------------------------------------------------------------------------------

def _comp(spec):
    """'Id_1:Integer:I' -> component dict  (I identifier, M measure, A attribute; suffix ! = not nullable)"""
    name, typ, role = spec.split(":")
    nn = role.endswith("!")
    role = role.rstrip("!")
    role = {"I": "Identifier", "M": "Measure", "A": "Attribute"}[role]
    return harness.comp(name, typ, role, nullable=(False if (role == "Identifier" or nn) else True))


def _prog(name, script, datasets, tags, scalars=None, scalar_values=None, tpf=None):
    """datasets: {ds name: ([component specs], [row tuples])}"""
    return {"name": name, "script": script, "datasets": datasets, "tags": tags, "scalars": scalars or [],
            "scalar_values": scalar_values, "tpf": tpf}


AWKWARD = ["a,b", 'say "hi"', "line1\nline2", "cr\r\nlf", "é€\U0001F600 ünï", "  lead", "trail  ", " ", "NULL", "NA", "nan",
           "None", "it's", "semi;colon", "tab\there", "back\\slash", "007", "1e5", "true", "#hash", '"', '""', ",", "\n",
           'a"b,c\nd', "x" * 5000, "中文", "-", "0"]
BIG = 2 ** 63 - 1


def programs():
    P = []
    ident = "DS_r <- DS_1;"
    n = len(AWKWARD)

    # ---- one column type at a time, awkward values ------------------------------------------------
    P.append(_prog("string-measure-awkward", ident,
                   {"DS_1": (["Id_1:Integer:I", "Me_1:String:M"], [(i, v) for i, v in enumerate(AWKWARD)] + [(n, None), (n + 1, "")])},
                   ["String", "null", "empty-string", "comma", "quote", "newline", "unicode", "blanks"]))
    P.append(_prog("string-identifier-awkward", ident,
                   {"DS_1": (["Id_1:String:I", "Me_1:Integer:M"], [(v, i) for i, v in enumerate(AWKWARD)])},
                   ["String-identifier", "comma", "quote", "newline", "unicode", "blanks"]))
    P.append(_prog("string-attribute-awkward", ident,
                   {"DS_1": (["Id_1:Integer:I", "Me_1:Number:M", "At_1:String:A"],
                             [(i, 1.5 * i, v) for i, v in enumerate(AWKWARD[:12])] + [(50, None, None), (51, 2.0, "")])},
                   ["String-attribute", "null", "empty-string"]))
    P.append(_prog("empty-string-only", ident, {"DS_1": (["Id_1:Integer:I", "Me_1:String:M", "Me_2:String:M"], [(1, "", None), (2, None, ""), (3, "", "")])},
                   ["String", "empty-string", "null"]))
    P.append(_prog("integer-measure-extremes", ident,
                   {"DS_1": (["Id_1:Integer:I", "Me_1:Integer:M"],
                             [(1, 0), (2, 1), (3, -1), (4, BIG), (5, -BIG), (6, -BIG - 1), (7, None), (8, 2 ** 53 + 1), (9, BIG - 1)])},
                   ["Integer", "null", "near-2^63"]))
    P.append(_prog("integer-identifier-extremes", ident,
                   {"DS_1": (["Id_1:Integer:I", "Me_1:String:M"], [(0, "zero"), (-1, "m1"), (BIG, "max"), (BIG - 1, "max-1"), (-BIG, "min+1")])},
                   ["Integer-identifier", "near-2^63"]))
    P.append(_prog("number-measure-decimal-extremes", ident,
                   {"DS_1": (["Id_1:Integer:I", "Me_1:Number:M"],
                             [(1, "0"), (2, "-0.0"), (3, "0.0000000001"), (4, "-0.0000000001"), (5, "1e-7"), (6, "123456789012345678.1234567891"),
                              (7, "-999999999999999999.9999999999"), (8, "0.1"), (9, "0.3333333333"), (10, "1e17"), (11, None), (12, "0.00000000005"),
                              (13, "1e-300"), (14, "2.5"), (15, "100")])},
                   ["Number", "null", "very-small", "very-large"]))
    P.append(_prog("number-measure-floats", ident,
                   {"DS_1": (["Id_1:Integer:I", "Me_1:Number:M"], [(1, 0.1), (2, 1 / 3), (3, 1e-7), (4, 12345678.125), (5, float("nan")), (6, -2.5), (7, 1e15)])},
                   ["Number", "null", "float-input"]))
    P.append(_prog("number-identifier", ident,
                   {"DS_1": (["Id_1:Number:I", "Me_1:Integer:M"], [("1.5", 1), ("-2.25", 2), ("0", 3), ("10000000000", 4), ("0.0000000001", 5)])},
                   ["Number-identifier"]))
    P.append(_prog("boolean-measure", ident, {"DS_1": (["Id_1:Integer:I", "Me_1:Boolean:M"], [(1, True), (2, False), (3, None)])}, ["Boolean", "null"]))
    P.append(_prog("boolean-identifier", ident, {"DS_1": (["Id_1:Boolean:I", "Me_1:Integer:M"], [(True, 1), (False, 0)])}, ["Boolean-identifier"]))
    P.append(_prog("date-measure-date-only", ident,
                   {"DS_1": (["Id_1:Integer:I", "Me_1:Date:M"], [(1, "2020-01-15"), (2, "1900-01-01"), (3, "9999-12-31"), (4, None), (5, "2000-02-29"), (6, "1800-01-01")])},
                   ["Date", "null", "date-without-time"]))
    P.append(_prog("date-measure-with-time", ident,
                   {"DS_1": (["Id_1:Integer:I", "Me_1:Date:M"],
                             [(1, "2020-01-15 10:30:00"), (2, "2020-01-15T23:59:59"), (3, "2020-01-15 00:00:00"), (4, None), (5, "2020-01-15 10:30:00.123456"),
                              (6, "1999-12-31 00:00:01")])},
                   ["Date", "null", "date-with-time", "fractional-seconds"]))
    P.append(_prog("date-measure-mixed", ident,
                   {"DS_1": (["Id_1:Integer:I", "Me_1:Date:M", "Me_2:Date:M"],
                             [(1, "2020-01-15", "2020-01-15"), (2, "2020-06-30 12:00:00", "2021-01-01"), (3, None, None), (4, "2021-12-31", None)])},
                   ["Date", "null", "date-with-time", "date-without-time"]))
    P.append(_prog("date-all-midnight-timestamps", ident,
                   {"DS_1": (["Id_1:Integer:I", "Me_1:Date:M"], [(1, "2020-01-15 00:00:00"), (2, "2021-02-03T00:00:00"), (3, None)])},
                   ["Date", "date-with-time", "midnight"]))
    P.append(_prog("date-identifier", ident,
                   {"DS_1": (["Id_1:Date:I", "Me_1:Integer:M"], [("2020-01-15", 1), ("2020-01-16", 2), ("1999-12-31", 3)])}, ["Date-identifier"]))
    P.append(_prog("date-identifier-with-time", ident,
                   {"DS_1": (["Id_1:Date:I", "Me_1:Integer:M"], [("2020-01-15 10:00:00", 1), ("2020-01-15 11:00:00", 2), ("2020-01-16", 3)])},
                   ["Date-identifier", "date-with-time"]))
    periods = ["2020", "2020A", "2020S1", "2020S2", "2020Q3", "2020M1", "2020M12", "2020W01", "2020W53", "2020D001", "2020D366", "2021-Q1", "2021-M06", "2021-05"]
    for tpf in ("vtl", "sdmx_gregorian", "sdmx_reporting", "natural"):
        vals = periods if tpf != "sdmx_gregorian" else ["2020", "2020A", "2020M1", "2020M12", "2020D001", "2020D366", "2021-05"]
        P.append(_prog("time-period-measure-" + tpf, ident,
                       {"DS_1": (["Id_1:Integer:I", "Me_1:Time_Period:M"], [(i, v) for i, v in enumerate(vals)] + [(99, None)])},
                       ["Time_Period", "null", "representation-" + tpf], tpf=tpf))
        idv = ["2020", "2020S1", "2020S2", "2020Q3", "2020M1", "2020M12", "2020W01", "2020D366"] if tpf != "sdmx_gregorian" else ["2020", "2020M1", "2020M12", "2020D001", "2020D366", "2021-05"]
        P.append(_prog("time-period-identifier-" + tpf, ident,
                       {"DS_1": (["Id_1:Time_Period:I", "Me_1:Integer:M"], [(v, i) for i, v in enumerate(idv)])},
                       ["Time_Period-identifier", "representation-" + tpf], tpf=tpf))
        # several Time_Period components whose nulls do not coincide (every null pattern over 3 columns of 2 rows each)
        pv = ["2020Q3", "2020M1", "2020"] if tpf != "sdmx_gregorian" else ["2020M12", "2020D001", "2020"]
        rows, n = [], 0
        for mask in range(8):
            for shift in (0, 1):
                cells = [None if mask >> k & 1 else pv[(k + shift) % 3] for k in range(3)]
                rows.append((n, pv[n % 3]) + tuple(cells))
                n += 1
        P.append(_prog("time-period-several-columns-" + tpf, ident,
                       {"DS_1": (["Id_1:Integer:I", "Id_2:Time_Period:I", "Me_1:Time_Period:M", "Me_2:Time_Period:M", "At_1:Time_Period:A"], rows)},
                       ["Time_Period", "null", "several-time-period-columns", "representation-" + tpf], tpf=tpf))
        P.append(_prog("time-period-scalar-" + tpf, 'sc_r <- cast("%s", time_period); sc_m <- cast("2020M3", time_period); sc_a <- cast("2020", time_period);' % ("2020Q1" if tpf != "sdmx_gregorian" else "2020D032"),
                       {}, ["scalar", "Time_Period", "representation-" + tpf], tpf=tpf))
    P.append(_prog("time-interval-measure", ident,
                   {"DS_1": (["Id_1:Integer:I", "Me_1:Time:M"], [(1, "2020-01-01/2020-12-31"), (2, None), (3, "2020-01-01/2020-01-31"), (4, "1999-01-01/2030-06-30")])},
                   ["Time", "null"]))
    P.append(_prog("time-interval-identifier", ident,
                   {"DS_1": (["Id_1:Time:I", "Me_1:Integer:M"], [("2020-01-01/2020-12-31", 1), ("2021-01-01/2021-12-31", 2)])}, ["Time-identifier"]))
    P.append(_prog("duration-measure", ident,
                   {"DS_1": (["Id_1:Integer:I", "Me_1:Duration:M"], [(1, "A"), (2, "S"), (3, "Q"), (4, "M"), (5, "W"), (6, "D"), (7, None)])}, ["Duration", "null"]))
    P.append(_prog("duration-identifier", ident, {"DS_1": (["Id_1:Duration:I", "Me_1:Integer:M"], [("A", 1), ("M", 2), ("D", 3)])}, ["Duration-identifier"]))

    # ---- every type at once ------------------------------------------------------------------------
    allc = ["Id_1:Integer:I", "Id_2:String:I", "Me_s:String:M", "Me_i:Integer:M", "Me_n:Number:M", "Me_b:Boolean:M", "Me_d:Date:M",
            "Me_p:Time_Period:M", "Me_t:Time:M", "Me_u:Duration:M", "At_1:String:A"]
    allr = [(1, "a", "x,y", 1, "1.5", True, "2020-01-15", "2020Q1", "2020-01-01/2020-12-31", "A", "att"),
            (2, "b", None, None, None, None, None, None, None, None, None),
            (3, "c, d", 'q"q', -BIG, "-0.0000000001", False, "2020-01-15 10:30:00", "2020M12", "2020-01-01/2020-01-31", "M", ""),
            (4, "e\nf", "", BIG, "123456789012345678.1234567891", True, "1900-12-31", "2020", "2020-01-01/2020-12-31", "D", "é")]
    P.append(_prog("all-types-with-nulls", ident, {"DS_1": (allc, allr)}, ["all-types", "null", "every-type-null"]))
    P.append(_prog("all-types-empty-result", "DS_r <- DS_1[filter Id_1 > 99];", {"DS_1": (allc, allr)}, ["all-types", "empty-result"]))
    P.append(_prog("all-types-empty-input", ident, {"DS_1": (allc, [])}, ["all-types", "empty-result", "empty-input"]))
    P.append(_prog("all-types-only-null-row", ident, {"DS_1": (allc, [allr[1]])}, ["all-types", "every-type-null"]))
    P.append(_prog("dataset-without-identifiers", ident,
                   {"DS_1": (["Me_1:Integer:M", "Me_2:String:M", "Me_3:Number:M"], [(7, "only, row", "2.5")])}, ["no-identifiers"]))
    P.append(_prog("dataset-without-identifiers-null-row", ident,
                   {"DS_1": (["Me_1:Integer:M", "Me_2:String:M"], [(None, None)])}, ["no-identifiers", "null"]))
    P.append(_prog("aggregate-to-no-identifiers", "DS_r <- sum(DS_1); DS_c <- count(DS_1);",
                   {"DS_1": (["Id_1:Integer:I", "Me_1:Number:M"], [(1, "1.5"), (2, "2.25"), (3, None)])}, ["no-identifiers", "aggregate"]))
    P.append(_prog("identifiers-only", ident, {"DS_1": (["Id_1:Integer:I", "Id_2:String:I"], [(1, "a"), (1, "b"), (2, "a,b")])}, ["identifiers-only"]))
    P.append(_prog("thousand-rows", "DS_r <- DS_1[calc Me_2 := Me_1 / 7, Me_3 := cast(Id_1, string) || \",x\"];",
                   {"DS_1": (["Id_1:Integer:I", "Me_1:Number:M"], [(i, "%d.%03d" % (i * 37 % 1000, i)) for i in range(1000)])}, ["many-rows", "Number", "double"]))

    # ---- persistent / temporary mixtures -------------------------------------------------------------
    two = {"DS_1": (["Id_1:Integer:I", "Me_1:Number:M"], [(1, "1.5"), (2, "2.5"), (3, None)]),
           "DS_2": (["Id_1:Integer:I", "Me_1:Number:M"], [(1, "10"), (2, None), (4, "40")])}
    P.append(_prog("mixed-persistent-temporary", "DS_a := DS_1 * 2; DS_r <- DS_a + DS_2; DS_b := DS_1[filter Me_1 > 2]; sc_t := 3; sc_r <- sc_t + 1; DS_s <- DS_b;",
                   two, ["mixed-persistence", "scalar", "Number"]))
    P.append(_prog("only-temporary", "DS_a := DS_1 * 2; DS_b := DS_a - DS_2; sc_t := 1 + 1;", two, ["only-temporary", "scalar"]))
    P.append(_prog("only-persistent-many", "DS_a <- DS_1; DS_b <- DS_2; DS_c <- DS_1 + DS_2; DS_d <- DS_1[filter false];", two, ["many-results", "empty-result"]))
    P.append(_prog("temporary-scalars-persistent-dataset", "sc_a := 2; sc_b := sc_a * 3; DS_r <- DS_1 * sc_b;", two, ["mixed-persistence", "scalar"]))
    P.append(_prog("persistent-scalars-temporary-dataset", "DS_a := DS_1; sc_r <- 5; sc_s <- \"five\";", two, ["mixed-persistence", "scalar"]))
    P.append(_prog("chain-reuse", "DS_a := DS_1 + 1; DS_b := DS_a + 1; DS_r <- DS_b + DS_a; DS_q <- DS_a;", two, ["mixed-persistence"]))

    # ---- scalar results of every type ---------------------------------------------------------------
    P.append(_prog("scalars-every-type",
                   'sc_i <- 3; sc_n <- 2.5; sc_b <- true; sc_f <- false; sc_s <- "text"; sc_d <- cast("2020-01-15", date); '
                   'sc_p <- cast("2020Q1", time_period); sc_u <- cast("M", duration); sc_z <- null; sc_t := 1;',
                   {}, ["scalar", "Integer", "Number", "Boolean", "String", "Date", "Time_Period", "Duration", "null"]))
    P.append(_prog("scalars-awkward-strings-literals", 'sc_c <- "a,b"; sc_l <- "line1\nline2"; sc_u <- "é€\U0001F600"; sc_e <- ""; sc_b <- "  both  "; sc_q <- "it\'s"; sc_x <- "NULL";',
                   {}, ["scalar", "String", "comma", "newline", "unicode", "empty-string", "blanks"]))
    sv = {"sc_1": 'say "hi", ok', "sc_2": "", "sc_3": "x" * 3000, "sc_4": '"', "sc_5": "a\r\nb", "sc_6": None}
    P.append(_prog("scalars-awkward-strings-inputs", "; ".join("r_%d <- sc_%d || \"\"" % (i, i) for i in range(1, 7)) + ";", {},
                   ["scalar", "String", "quote", "empty-string", "null", "newline"],
                   scalars=[{"name": "sc_%d" % i, "type": "String"} for i in range(1, 7)], scalar_values=sv))
    P.append(_prog("scalars-null-of-each-type",
                   "r_i <- sc_i + 1; r_n <- sc_n * 2; r_b <- not sc_b; r_s <- sc_s || \"x\"; r_z <- null; r_c <- cast(null, integer);", {},
                   ["scalar", "null", "Integer", "Number", "Boolean", "String"],
                   scalars=[{"name": "sc_i", "type": "Integer"}, {"name": "sc_n", "type": "Number"}, {"name": "sc_b", "type": "Boolean"}, {"name": "sc_s", "type": "String"}],
                   scalar_values={"sc_i": None, "sc_n": None, "sc_b": None, "sc_s": None}))
    P.append(_prog("scalars-numbers", "sc_a <- 1 / 3; sc_b <- 9223372036854775807; sc_c <- -9223372036854775807; sc_d <- exp(700); sc_e <- power(10, -300); "
                   "sc_f <- 0.1 + 0.2; sc_g <- 123456789.123456789; sc_h <- 0.0; sc_i <- -0.5; sc_j <- 100 * 1.0;", {},
                   ["scalar", "Number", "Integer", "near-2^63", "very-small", "very-large"]))
    P.append(_prog("scalars-dates", 'sc_a <- cast("2020-01-15 10:30:00", date); sc_b <- cast("2020-01-15", date); sc_c <- cast("2020-01-15 00:00:00", date);', {},
                   ["scalar", "Date", "date-with-time"]))
    P.append(_prog("scalar-and-dataset", "DS_r <- DS_1 * sc_1; sc_r <- sc_1 + 0.5;", two, ["scalar", "Number"],
                   scalars=[{"name": "sc_1", "type": "Number"}], scalar_values={"sc_1": 2.5}))
    P.append(_prog("scalar-from-boolean-expression", "sc_a <- 1 > 2; sc_b <- (1 = 1) and (2 = 2); sc_c <- isnull(null); sc_d <- \"a\" = \"b\";", {}, ["scalar", "Boolean"]))

    # ---- computed columns ---------------------------------------------------------------------------
    num = {"DS_1": (["Id_1:Integer:I", "Me_1:Number:M", "Me_2:Number:M"], [(1, "1", "3"), (2, "700", "7"), (3, None, "2"), (4, "0.5", None), (5, "-2.5", "0.1")])}
    P.append(_prog("computed-doubles", "DS_r <- DS_1[calc a := Me_1 / Me_2, b := exp(Me_1), c := power(10, -300) * Me_1, d := sqrt(abs(Me_1)), e := ln(abs(Me_1)), f := Me_1 * Me_2];",
                   num, ["double", "very-small", "very-large", "null"]))
    P.append(_prog("computed-rounding", "DS_r <- DS_1[calc a := round(Me_1 / 3, 4), b := trunc(Me_1 / 3, 2), c := ceil(Me_1), d := floor(Me_1), e := mod(Me_1, Me_2), f := abs(Me_1)];",
                   num, ["double", "Integer", "null"]))
    P.append(_prog("computed-booleans", "DS_r <- DS_1[calc a := Me_1 > Me_2, b := isnull(Me_1), c := (Me_1 > 0) and (Me_2 > 0), d := not (Me_1 = Me_2), e := Me_1 in {1, 700}, f := between(Me_1, 0, 10)];",
                   num, ["Boolean", "null", "computed"]))
    st = {"DS_1": (["Id_1:Integer:I", "Me_1:String:M", "Me_2:String:M"], [(1, "a,b", ' "q" '), (2, "L1\nL2", "é"), (3, None, "x"), (4, "", ""), (5, "  pad  ", "z")])}
    P.append(_prog("computed-strings", "DS_r <- DS_1[calc a := Me_1 || Me_2, b := upper(Me_1), c := trim(Me_1), d := substr(Me_1, 1, 2), e := replace(Me_1, \",\", \";\"), f := length(Me_1), g := instr(Me_1, \"b\")];",
                   st, ["String", "Integer", "null", "computed", "comma", "newline"]))
    P.append(_prog("computed-casts", 'DS_r <- DS_1[calc a := cast(Me_1, string), b := cast(Me_1, integer), c := cast(Me_2, string), d := cast(cast(Me_2, integer), boolean)];',
                   num, ["String", "Integer", "Boolean", "cast", "null"]))
    cs = {"DS_1": (["Id_1:Integer:I", "Me_1:String:M", "Me_2:String:M"], [(1, "2020-01-15", "2020Q1"), (2, "1999-12-31", "2020M05"), (3, None, None)])}
    P.append(_prog("computed-cast-to-time-types", 'DS_r <- DS_1[calc a := cast(Me_1, date), b := cast(Me_2, time_period)];', cs, ["Date", "Time_Period", "cast", "null"]))
    P.append(_prog("conditional", 'DS_r <- DS_1[calc a := if Me_1 > 1 then "big, yes" else "small", b := nvl(Me_1, 0), c := nvl(Me_2, -1.5), d := case when Me_1 > 100 then 1 when Me_1 > 0 then 2 else 3];',
                   num, ["conditional", "String", "Number", "Integer", "null"]))
    P.append(_prog("dataset-level-arithmetic", "DS_r <- DS_1 + DS_1 * 2; DS_q <- DS_1 / 3; DS_n <- -DS_1; DS_c <- DS_1#Me_1 > 1;", num, ["dataset-arithmetic", "Number", "Boolean", "null"]))
    grp = {"DS_1": (["Id_1:Integer:I", "Id_2:String:I", "Me_1:Number:M", "Me_2:Integer:M"],
                    [(1, "a", "1.5", 1), (1, "b", "2.5", None), (2, "a", None, 3), (2, "b", "4", 4), (3, "a,b", "0.1", 5)])}
    P.append(_prog("aggregates", "DS_r <- sum(DS_1 group by Id_1); DS_a <- avg(DS_1 group by Id_2); DS_c <- count(DS_1 group by Id_1); DS_m <- max(DS_1 group by Id_2); DS_n <- min(DS_1 group by Id_1);",
                   grp, ["aggregate", "Number", "Integer", "null"]))
    P.append(_prog("aggregates-statistics", "DS_r <- median(DS_1 group by Id_2); DS_s <- stddev_samp(DS_1 group by Id_2); DS_v <- var_pop(DS_1 group by Id_2);", grp, ["aggregate", "double", "null"]))
    P.append(_prog("aggr-clause-having", "DS_r <- DS_1[aggr s := sum(Me_1), c := count(), m := max(Me_2) group by Id_1]; DS_h <- DS_1[aggr s := sum(Me_1) group by Id_1 having avg(Me_1) > 1];", grp, ["aggregate"]))
    P.append(_prog("analytic", "DS_r <- DS_1[calc r := rank(over (partition by Id_1 order by Me_2)), f := first_value(Me_1 over (partition by Id_2 order by Id_1)), l := lag(Me_2, 1 over (partition by Id_2 order by Id_1))];",
                   grp, ["analytic", "null", "Integer", "Number"]))
    P.append(_prog("analytic-dataset", "DS_r <- sum(DS_1 over (partition by Id_2 order by Id_1)); DS_q <- ratio_to_report(DS_1#Me_2 over (partition by Id_1));", grp, ["analytic", "double"]))
    P.append(_prog("joins", "DS_r <- inner_join(DS_1, DS_2 using Id_1 rename DS_1#Me_1 to A, DS_2#Me_1 to B); DS_l <- left_join(DS_1 as d1, DS_2 as d2 rename d1#Me_1 to A, d2#Me_1 to B); "
                   "DS_f <- full_join(DS_1 as d1, DS_2 as d2 rename d1#Me_1 to A, d2#Me_1 to B);", two, ["join", "null", "Number"]))
    P.append(_prog("cross-join", "DS_r <- cross_join(DS_1 as d1, DS_2 as d2 rename d1#Id_1 to I1, d2#Id_1 to I2, d1#Me_1 to A, d2#Me_1 to B);", two, ["join", "null"]))
    P.append(_prog("set-operators", "DS_u <- union(DS_1, DS_2); DS_i <- intersect(DS_1, DS_2); DS_d <- setdiff(DS_1, DS_2); DS_s <- symdiff(DS_1, DS_2);", two, ["set-operator", "null", "empty-result"]))
    P.append(_prog("clauses", "DS_r <- DS_1[rename Me_1 to Me_9]; DS_k <- DS_1[keep Me_2]; DS_d <- DS_1[drop Me_2]; DS_s <- DS_1[sub Id_2 = \"a\"]; DS_m <- DS_1#Me_1;", grp, ["clauses"]))
    P.append(_prog("unpivot", "DS_u <- DS_1[unpivot Id_3, Me_3];",
                   {"DS_1": (["Id_1:Integer:I", "Me_1:Number:M", "Me_2:Number:M"], [(1, "1.5", "1"), (2, "2.5", None), (3, None, None)])}, ["unpivot", "null"]))
    tp = {"DS_1": (["Id_1:String:I", "Id_2:Time_Period:I", "Me_1:Number:M"],
                   [("a", "2020Q1", "1"), ("a", "2020Q2", "2"), ("a", "2020Q4", None), ("b", "2020Q1", "10"), ("b", "2020Q3", "30")])}
    P.append(_prog("time-operators-periods", "DS_f <- flow_to_stock(DS_1); DS_s <- stock_to_flow(DS_1); DS_t <- timeshift(DS_1, 1); DS_a <- sum(DS_1 group all time_agg(\"A\")); DS_c <- DS_1[calc Me_2 := time_agg(\"A\", Id_2)]; DS_x <- fill_time_series(DS_1, all);",
                   tp, ["time-operator", "Time_Period", "null"]))
    P.append(_prog("time-operators-period-indicator", "DS_r <- DS_1[calc p := period_indicator(Id_2)];", tp, ["time-operator", "Duration"]))
    dt = {"DS_1": (["Id_1:Integer:I", "Me_1:Date:M", "Me_2:Date:M"], [(1, "2020-01-15", "2020-03-01"), (2, "2019-12-31", "2020-01-01"), (3, None, "2020-01-01")])}
    P.append(_prog("time-operators-dates", 'DS_r <- DS_1[calc a := dateadd(Me_1, 1, "M"), b := datediff(Me_1, Me_2), c := getyear(Me_1), d := getmonth(Me_1), e := dayofmonth(Me_1), f := dayofyear(Me_1)];',
                   dt, ["time-operator", "Date", "Integer", "null"]))
    P.append(_prog("validation-check", "DS_r <- check(DS_1#Me_1 > 1 errorcode \"E,1\" errorlevel 2 imbalance DS_1#Me_1 - 1 all); DS_i <- check(DS_1#Me_1 > 1 errorcode \"E1\" errorlevel 2 invalid);",
                   two, ["validation", "Boolean", "null", "comma"]))
    P.append(_prog("validation-datapoint-ruleset",
                   'define datapoint ruleset dpr (variable Me_1) is r1: Me_1 > 2 errorcode "too, small" errorlevel 1; r2: Me_1 < 100 errorcode "big" end datapoint ruleset; '
                   "DS_r <- check_datapoint(DS_1, dpr); DS_a <- check_datapoint(DS_1, dpr all);", two, ["validation", "null", "comma"]))
    P.append(_prog("validation-hierarchy",
                   'define hierarchical ruleset hr (variable rule Id_2) is a = b + c errorcode "sum" errorlevel 5 end hierarchical ruleset; '
                   "DS_r <- check_hierarchy(DS_1, hr rule Id_2 all); DS_h <- hierarchy(DS_1, hr rule Id_2 computed);",
                   {"DS_1": (["Id_1:Integer:I", "Id_2:String:I", "Me_1:Number:M"], [(1, "a", "5"), (1, "b", "2"), (1, "c", "3"), (2, "a", "9"), (2, "b", "1")])},
                   ["validation", "hierarchy", "null"]))
    P.append(_prog("user-defined-operator", "define operator f (x dataset, k number) returns dataset is x * k + 1 end operator; DS_r <- f(DS_1, 2.5);", two, ["udo"]))
    P.append(_prog("exists-in-and-membership", "DS_r <- exists_in(DS_1, DS_2, all); DS_m <- DS_1#Id_1;", two, ["Boolean"]))
    P.append(_prog("nullable-false-measure", ident, {"DS_1": (["Id_1:Integer:I", "Me_1:Number:M!", "Me_2:String:M!"], [(1, "1.5", "a"), (2, "0", "")])}, ["not-nullable", "empty-string"]))
    P.append(_prog("viral-attribute-propagation", "DS_r <- DS_1 + DS_2;",
                   {"DS_1": (["Id_1:Integer:I", "Me_1:Number:M", "At_1:String:A"], [(1, "1", "x,y"), (2, "2", None)]),
                    "DS_2": (["Id_1:Integer:I", "Me_1:Number:M"], [(1, "10"), (2, "20")])}, ["attribute"]))

    # ---- result names -------------------------------------------------------------------------------
    P.append(_prog("result-name-with-dot", "DS.r <- DS_1; DS.t := DS_1;", two, ["result-name"]))
    P.append(_prog("result-named-like-the-scalar-file", "'_scalars' <- DS_1; sc_r <- 1;", two, ["result-name", "scalar", "name-collision"]))
    P.append(_prog("result-names-differing-in-case", "DS_r <- DS_1; ds_r <- DS_2;", two, ["result-name"]))
    P.append(_prog("quoted-component-names", "DS_r <- DS_1[calc 'my col' := Me_1 * 2, 'a,b' := Me_1 + 1];", two, ["component-name", "comma"]))
    names = [p["name"] for p in P]
    assert len(names) == len(set(names)), "duplicate program names"
    return P


def materialise(prog):
    """-> kwargs for run() with freshly built DataFrames"""
    import pandas as pd
    dss, dps = [], {}
    for name, (specs, rows) in prog["datasets"].items():
        comps = [_comp(s) for s in specs]
        dss.append(harness.structure(name, comps))
        cols = {}
        for j, c in enumerate(comps):
            vals = [r[j] for r in rows]
            t = c["type"]
            if t == "Integer":
                cols[c["name"]] = pd.array(vals, dtype="Int64")
            elif t == "Boolean":
                cols[c["name"]] = pd.array(vals, dtype="boolean")
            elif t == "Number" and all(isinstance(v, float) for v in vals) and vals:
                cols[c["name"]] = pd.Series(vals, dtype="float64")
            else:
                cols[c["name"]] = pd.Series(vals, dtype=object)
        dps[name] = pd.DataFrame(cols)
    kw = {"script": prog["script"], "data_structures": harness.structures(*dss, scalars=prog["scalars"] or None), "datapoints": dps}
    if prog["scalar_values"] is not None:
        kw["scalar_values"] = dict(prog["scalar_values"])
    if prog["tpf"]:
        kw["time_period_output_format"] = prog["tpf"]
    return kw


# ------------------------------------------------------------------------------------------------
# independent readers
# ------------------------------------------------------------------------------------------------

def read_csv_cells(text):
    """RFC-4180 reader keeping whether a field was quoted: -> list of records, each a list of (value, quoted)"""
    recs, rec, buf = [], [], []
    i, n = 0, len(text)
    quoted = in_q = False
    started = False
    while i < n:
        ch = text[i]
        if in_q:
            if ch == '"':
                if i + 1 < n and text[i + 1] == '"':
                    buf.append('"')
                    i += 2
                    continue
                in_q = False
                i += 1
                continue
            buf.append(ch)
            i += 1
            continue
        if ch == '"' and not buf and not quoted:
            in_q = quoted = started = True
            i += 1
            continue
        if ch == ",":
            rec.append(("".join(buf), quoted))
            buf, quoted, started = [], False, True
            i += 1
            continue
        if ch == "\n" or ch == "\r":
            if ch == "\r" and i + 1 < n and text[i + 1] == "\n":
                i += 1
            rec.append(("".join(buf), quoted))
            recs.append(rec)
            rec, buf, quoted, started = [], [], False, False
            i += 1
            continue
        buf.append(ch)
        started = True
        i += 1
    if in_q:
        raise ValueError("unterminated quoted field")
    if started or buf or rec:
        rec.append(("".join(buf), quoted))
        recs.append(rec)
    return recs


def read_csv_file(path):
    """-> (header, rows of (value, quoted)); cross-checked against the csv module"""
    with open(path, encoding="utf-8", newline="") as f:
        text = f.read()
    recs = read_csv_cells(text)
    ref = list(csv.reader(io.StringIO(text, newline="")))
    if [[v for v, _ in r] for r in recs] != ref:
        raise RuntimeError("CSV readers disagree on %s" % path)
    if not recs:
        return None, []
    return [v for v, _ in recs[0]], recs[1:]


def type_name(t):
    return getattr(t, "__name__", str(t))


def is_null(v):
    if v is None:
        return True
    try:
        import pandas as pd
        if v is pd.NA or v is pd.NaT:
            return True
    except Exception:  # noqa: BLE001
        pass
    return isinstance(v, float) and math.isnan(v)


def norm(v, t):
    """a value coming from memory / parquet -> canonical python value for VTL type name t"""
    if is_null(v):
        return None
    if hasattr(v, "item") and not isinstance(v, (str, bytes)):
        try:
            v = v.item()
        except Exception:  # noqa: BLE001
            pass
    if t == "Boolean":
        return bool(v) if isinstance(v, bool) or (isinstance(v, int) and v in (0, 1)) else v
    if isinstance(v, bool):
        return v
    if t == "Integer":
        if isinstance(v, int):
            return v
        try:
            f = float(v)
            return int(v) if f == int(f) and not isinstance(v, float) else (int(f) if f == int(f) and abs(f) < 2 ** 53 else f)
        except (TypeError, ValueError):
            return str(v)
    if t == "Number":
        try:
            return float(v)
        except (TypeError, ValueError):
            return str(v)
    if isinstance(v, (int, float)) or type(v).__name__ == "Decimal":
        return float(v) if not isinstance(v, int) else v
    if hasattr(v, "isoformat"):
        return v.isoformat()
    return v if isinstance(v, str) else str(v)


def from_csv(cell, t):
    """(text, quoted) of a CSV field -> canonical python value for VTL type name t"""
    text, quoted = cell
    if text == "" and not quoted:
        return None
    if t == "Integer":
        try:
            return int(text)
        except ValueError:
            try:
                f = float(text)
                return int(f) if f == int(f) and abs(f) < 2 ** 53 else f
            except ValueError:
                return text
    if t == "Number":
        try:
            return float(text)
        except ValueError:
            return text
    if t == "Boolean":
        if text.lower() in ("true", "false"):
            return text.lower() == "true"
        try:
            # a Boolean-typed column that holds numbers in memory (flow_to_stock over a Boolean measure gives 1.0, 2.0, ...)
            # is written as numbers: compared as numbers, the typing anomaly itself is C10's subject
            return float(text)
        except ValueError:
            return text
    if t is None:
        return text
    return text


def same(a, b):
    if a is None or b is None:
        return a is None and b is None
    if isinstance(a, bool) or isinstance(b, bool):
        return isinstance(a, bool) and isinstance(b, bool) and a == b
    if isinstance(a, (int, float)) and isinstance(b, (int, float)):
        if isinstance(a, int) and isinstance(b, int):
            return a == b
        if a == b:
            return True
        if math.isinf(a) or math.isinf(b):
            return False
        return abs(a - b) <= REL * max(abs(a), abs(b))
    return type(a) is type(b) and a == b


def _sk(v):
    if v is None:
        return (0, 0, "")
    if isinstance(v, bool):
        return (1, int(v), "")
    if isinstance(v, (int, float)):
        return (2, v, "")
    return (3, 0, str(v))


def match_rows(mem, fil):
    """multiset comparison with tolerance -> None if equal else (row of memory, row of file) that differ"""
    if len(mem) != len(fil):
        return ("row-count", len(mem), len(fil))
    a, b = sorted(mem, key=lambda r: [_sk(v) for v in r]), sorted(fil, key=lambda r: [_sk(v) for v in r])
    bad = [(x, y) for x, y in zip(a, b) if not all(same(u, v) for u, v in zip(x, y))]
    if not bad:
        return None
    if len(mem) <= 300:  # sort order may differ within the tolerance: greedy matching before giving a verdict
        left = list(b)
        unmatched = []
        for x in a:
            for k, y in enumerate(left):
                if all(same(u, v) for u, v in zip(x, y)):
                    del left[k]
                    break
            else:
                unmatched.append(x)
        if not unmatched:
            return None
        x = unmatched[0]
        best = min(left, key=lambda y: sum(0 if same(u, v) else 1 for u, v in zip(x, y)))
        return ("cell", x, best)
    return ("cell",) + bad[0]


def value_class(v, t):
    """equivalence class of a value in domain vocabulary (never the raw value)"""
    if v is None:
        return "null"
    if isinstance(v, bool):
        return "boolean"
    if isinstance(v, int):
        return "integer-near-2^63" if abs(v) >= 2 ** 62 else ("integer-beyond-2^53" if abs(v) > 2 ** 53 else "integer")
    if isinstance(v, float):
        if v != 0 and abs(v) < 1e-9:
            return "very-small-number"
        if abs(v) >= 1e15:
            return "very-large-number"
        return "number"
    s = str(v)
    if s == "":
        return "empty-string"
    cl = []
    if "\n" in s or "\r" in s:
        cl.append("newline")
    if '"' in s:
        cl.append("double-quote")
    if "," in s:
        cl.append("comma")
    if s != s.strip():
        cl.append("leading-or-trailing-blank")
    if any(ord(c) > 127 for c in s):
        cl.append("non-ascii")
    if t == "Date":
        return "date-with-time" if len(s) > 10 else "date-without-time"
    return "string-with-" + "+".join(cl) if cl else "plain-value"


# ------------------------------------------------------------------------------------------------
# the oracle for one (call, format, return_only_persistent)
# ------------------------------------------------------------------------------------------------

def listing(folder):
    out = []
    if not os.path.isdir(folder):
        return None
    for dp, dns, fns in os.walk(folder):
        rel = os.path.relpath(dp, folder)
        for d in dns:
            out.append(os.path.normpath(os.path.join(rel, d)) + "/")
        for f in fns:
            out.append(os.path.normpath(os.path.join(rel, f)))
    return sorted(out)


def describe_model(res):
    """-> {name: ('dataset', components, columns, types, rows) | ('scalar', type, value)}"""
    from vtlengine.Model import Dataset, Scalar
    out = {}
    for name, obj in res.items():
        if isinstance(obj, Dataset):
            df = obj.data
            cols = list(df.columns) if df is not None else []
            types = [type_name(obj.components[c].data_type) if c in obj.components else None for c in cols]
            rows = []
            if df is not None and len(df):
                for r in df.to_dict("records"):
                    rows.append(tuple(norm(r[c], t) for c, t in zip(cols, types)))
            out[name] = ("dataset", harness.canon_components(obj), cols, types, rows, df is None)
        elif isinstance(obj, Scalar):
            t = type_name(obj.data_type)
            out[name] = ("scalar", t, norm(obj.value, t))
        else:
            out[name] = ("other", repr(obj))
    return out


def compare(model, got, folder, fmt):
    """deviations of an output-folder run from the in-memory model -> [(key tail, sentence)]"""
    from vtlengine.Model import Dataset, Scalar
    devs = []
    if set(model) != set(got):
        devs.append(("returned-names:differ", "returned names %s, without output_folder %s" % (sorted(got), sorted(model))))
    expected_files = set()
    scalars = {}
    for name, m in sorted(model.items()):
        obj = got.get(name)
        if obj is None:
            continue
        if m[0] == "dataset":
            expected_files.add("%s.%s" % (name, fmt))
            if not isinstance(obj, Dataset):
                devs.append(("returned-dataset:kind-differs", "%s is a %s with output_folder" % (name, type(obj).__name__)))
                continue
            if obj.data is not None:
                devs.append(("returned-dataset:carries-data", "%s: returned dataset has in-memory data (%d rows) although output_folder is set" % (name, len(obj.data))))
            if harness.canon_components(obj) != m[1]:
                devs.append(("returned-dataset:components-differ", "%s: components %s vs %s" % (name, harness.canon_components(obj), m[1])))
        elif m[0] == "scalar":
            if not isinstance(obj, Scalar):
                devs.append(("returned-scalar:kind-differs", "%s is a %s with output_folder" % (name, type(obj).__name__)))
                continue
            t = type_name(obj.data_type)
            v = norm(obj.value, t)
            scalars[name] = ("scalar", t, v)   # the file has to hold the values returned by THIS run
            if t != m[1] or not same(v, m[2]):
                devs.append(("returned-scalar:%s:%s:value-differs-from-in-memory-run" % (m[1], value_class(m[2], m[1])),
                             "scalar %s is %s %r with output_folder, %s %r without" % (name, t, obj.value, m[1], m[2])))
    if scalars:
        expected_files.add(SCALARS_FILE)
    files = listing(folder)
    if files is None:
        if expected_files:
            devs.append(("files:output-folder-missing", "output folder was not created; expected %s" % sorted(expected_files)))
        return devs
    for f in sorted(expected_files - set(files)):
        devs.append(("files:%s:missing" % ("scalar-file" if f == SCALARS_FILE else "dataset-file"), "expected file %s is not in the folder %s" % (f, files)))
    for f in sorted(set(files) - expected_files):
        devs.append(("files:unexpected-entry", "unexpected entry %s in the output folder (expected exactly %s)" % (f, sorted(expected_files))))
    collision = any(m[0] == "dataset" and "%s.%s" % (name, fmt) == SCALARS_FILE for name, m in model.items()) and scalars
    for name, m in sorted(model.items()):
        if m[0] != "dataset" or "%s.%s" % (name, fmt) not in files:
            continue
        path = os.path.join(folder, "%s.%s" % (name, fmt))
        _, _, cols, types, rows, nodata = m
        if nodata:
            continue
        tag = "name-collision-with-scalar-file:" if collision and "%s.%s" % (name, fmt) == SCALARS_FILE else ""
        try:
            if fmt == "csv":
                header, recs = read_csv_file(path)
                if header is None:
                    devs.append(("csv:%sdataset-file:no-header" % tag, "%s.csv is empty" % name))
                    continue
                frows, ragged = [], False
                for r in recs:
                    if len(r) != len(header):
                        ragged = True
                        continue
                    frows.append(tuple(from_csv(c, t) for c, t in zip(r, types if header == cols else [None] * len(header))))
                if ragged:
                    devs.append(("csv:%sdataset-file:ragged-records" % tag, "%s.csv has records whose length differs from the header" % name))
            else:
                import pyarrow.parquet as pq
                tbl = pq.read_table(path)
                header = list(tbl.schema.names)
                data = tbl.to_pydict()
                frows = [tuple(norm(data[c][i], t) for c, t in zip(header, types if header == cols else [None] * len(header))) for i in range(tbl.num_rows)]
        except RuntimeError:
            raise
        except Exception as e:  # noqa: BLE001
            devs.append(("%s:%sdataset-file:unreadable:%s" % (fmt, tag, type(e).__name__), "%s.%s cannot be read back: %s" % (name, fmt, str(e)[:200])))
            continue
        if header != cols:
            devs.append(("%s:%sdataset-file:columns-differ" % (fmt, tag), "%s.%s has columns %s, in-memory result has %s" % (name, fmt, header, cols)))
            continue
        d = match_rows(rows, frows)
        if d is None:
            continue
        if d[0] == "row-count":
            devs.append(("%s:%sdataset-file:row-count-differs" % (fmt, tag), "%s.%s holds %d rows, in-memory result %d" % (name, fmt, d[2], d[1])))
            continue
        _, x, y = d
        for c, t, u, v in zip(cols, types, x, y):
            if not same(u, v):
                devs.append(("%s:%s%s-column:%s:file-value-differs-from-in-memory-value" % (fmt, tag, t, value_class(u, t)),
                             "%s.%s column %s (%s): in-memory value %r, nearest row of the file has %r (row %r)" % (name, fmt, c, t, _cut(u), _cut(v), tuple(_cut(z) for z in x)[:6])))
                break
    if scalars and SCALARS_FILE in files and not collision:
        try:
            header, recs = read_csv_file(os.path.join(folder, SCALARS_FILE))
        except RuntimeError:
            raise
        except Exception as e:  # noqa: BLE001
            devs.append(("scalar-file:unreadable:%s" % type(e).__name__, "_scalars.csv cannot be read back: %s" % str(e)[:200]))
            return devs
        if header != ["name", "value"]:
            devs.append(("scalar-file:header-differs", "_scalars.csv header is %r" % (header,)))
        seen = {}
        for r in recs:
            if len(r) != 2:
                devs.append(("scalar-file:ragged-records", "_scalars.csv record %r" % (r,)))
                continue
            seen.setdefault(r[0][0], []).append(r[1])
        if sorted(seen) != sorted(scalars) or any(len(v) != 1 for v in seen.values()):
            devs.append(("scalar-file:rows-differ-from-returned-scalars", "_scalars.csv names %s, returned scalars %s" % (sorted(seen), sorted(scalars))))
        for name, (_, t, v) in sorted(scalars.items()):
            if name not in seen:
                continue
            fv = from_csv(seen[name][0], t if t != "Null" else None)
            if not same(fv, v):
                devs.append(("scalar-file:%s-scalar:%s:file-value-differs-from-returned-value" % (t, value_class(v, t)),
                             "_scalars.csv holds %r for %s scalar %s, returned value is %r" % (_cut(fv), t, name, _cut(v))))
    return devs


def _cut(v):
    return v[:40] + "..." if isinstance(v, str) and len(v) > 43 else v


def err_sig(out):
    return out[1:4]


def check_call(make_kwargs, rop, rec, cover, replay, folder_root):
    """model + both formats for one call and one return_only_persistent value"""
    from vtlengine import run
    kw = make_kwargs()
    kw.pop("output_folder", None)
    kw.pop("output_format", None)
    kw["return_only_persistent"] = rop
    model_out = harness.call(run, **kw)
    model = describe_model(model_out[1]) if model_out[0] == "ok" else None
    found = []
    for fmt in FORMATS:
        folder = os.path.join(folder_root, "%s-%s" % (fmt, "p" if rop else "a"))
        shutil.rmtree(folder, ignore_errors=True)
        kw = make_kwargs()
        kw["return_only_persistent"] = rop
        kw["output_folder"] = folder
        kw["output_format"] = fmt
        out = harness.call(run, **kw)
        devs = []
        if model is None:
            outcome, nontrivial = "model-error", False
            if out[0] == "ok":
                devs.append(("%s:run:succeeds-only-with-output-folder" % fmt, "run() raises %s without output_folder but succeeds with it" % (model_out[1:4],)))
            elif err_sig(out) != err_sig(model_out):
                devs.append(("%s:run:error-differs-with-output-folder:%s" % (fmt, out[2]), "run() raises %s without output_folder, %s %s with it" % (model_out[1:4], out[1:4], out[4][:200])))
        elif out[0] != "ok":
            outcome, nontrivial = "error-with-folder", True
            devs.append(("%s:run:fails-only-with-output-folder:%s" % (fmt, out[2]), "run() succeeds without output_folder but raises %s %s: %s" % (out[2], out[3], out[4][:300])))
        else:
            nd = sum(1 for m in model.values() if m[0] == "dataset")
            ns = sum(1 for m in model.values() if m[0] == "scalar")
            nontrivial = bool(nd or ns)
            outcome = "written" if nontrivial else "nothing-returned"
            devs = compare(model, out[1], folder, fmt)
            rec.count("dataset_files_compared", nd)
            rec.count("scalar_files_compared", 1 if ns else 0)
            rec.count("datapoints_compared", sum(len(m[4]) for m in model.values() if m[0] == "dataset"))
        if devs:
            outcome += "+deviation"
        rec.case(cover(model, fmt, rop, outcome), outcome, nontrivial=nontrivial, sample=dict(replay, fmt=fmt, rop=rop, outcome=outcome))
        for tail, what in devs:
            key = "C14:" + tail
            rec.violation(key, "[%s, output_format=%s, return_only_persistent=%s] %s" % (replay.get("name") or replay.get("id"), fmt, rop, what),
                          dict(replay, key=key, fmt=fmt, rop=rop))
            found.append(key)
        shutil.rmtree(folder, ignore_errors=True)
    return found


def signature(model):
    """type signature of a model result for coverage keys"""
    if model is None:
        return ("error",)
    sig = set()
    for m in model.values():
        if m[0] == "dataset":
            for (_, role, t, _n) in m[1]:
                sig.add("%s:%s" % (role[:1], t))
            if not m[4]:
                sig.add("empty")
            if any(v is None for r in m[4] for v in r):
                sig.add("null")
        elif m[0] == "scalar":
            sig.add("scalar:%s%s" % (m[1], ":null" if m[2] is None else ""))
    return tuple(sorted(sig))


# ------------------------------------------------------------------------------------------------
# worker items
# ------------------------------------------------------------------------------------------------

_PROGS = {}


def _programs_by_name():
    if not _PROGS:
        for p in programs():
            _PROGS[p["name"]] = p
    return _PROGS


def _root(tag):
    d = os.path.join(harness.scratch(), "c14", "%d-%s" % (os.getpid(), tag))
    os.makedirs(d, exist_ok=True)
    return d


def work(item, rec):
    harness.boot()
    if item["kind"] == "program":
        for name in item["names"]:
            prog = _programs_by_name()[name]
            for rop in ROPS:
                check_call(lambda: materialise(prog), rop, rec,
                           lambda model, fmt, rop_, outcome: ("program", name, fmt, rop_, outcome),
                           {"kind": "program", "name": name}, _root("p"))
            rec.count("programs")
    else:
        from vtlmc import corpus
        for r in item["records"]:
            for rop in ROPS:
                check_call(lambda: corpus.run_kwargs(r), rop, rec,
                           lambda model, fmt, rop_, outcome: ("corpus", signature(model), fmt, rop_, outcome),
                           {"kind": "corpus", "id": r["id"], "test": r.get("test", "")}, _root("c"))
            rec.count("corpus_calls")


def self_test(rec):
    """the comparer must see a tampered cell, a dropped row, a foreign file and a wrong scalar (else the check is blind)"""
    from vtlengine import run
    prog = _programs_by_name()["mixed-persistent-temporary"]
    kw = materialise(prog)
    model = describe_model(run(**kw, return_only_persistent=False))
    blind = []
    for fmt in FORMATS:
        folder = os.path.join(_root("selftest"), fmt)
        shutil.rmtree(folder, ignore_errors=True)
        got = run(**materialise(prog), return_only_persistent=False, output_folder=folder, output_format=fmt)
        if compare(model, got, folder, fmt):
            continue  # a genuine deviation is reported by the lattice itself; nothing to learn here
        path = os.path.join(folder, "DS_r." + fmt)
        if fmt == "csv":
            lines = open(path, encoding="utf-8").read().split("\n")
            open(path, "w", encoding="utf-8").write("\n".join([lines[0], lines[1] + "e3"] + lines[2:]))
            if not compare(model, got, folder, fmt):
                blind.append("csv: tampered cell")
            open(path, "w", encoding="utf-8").write("\n".join(lines[:-2] + [""]))
            if not compare(model, got, folder, fmt):
                blind.append("csv: dropped row")
            open(path, "w", encoding="utf-8").write("\n".join(lines))
        else:
            import pyarrow as pa
            import pyarrow.parquet as pq
            tbl = pq.read_table(path)
            pq.write_table(tbl.slice(0, tbl.num_rows - 1), path)
            if not compare(model, got, folder, fmt):
                blind.append("parquet: dropped row")
            col = tbl.column("Me_1").to_pylist()
            col[0] = (col[0] or 0) + 1
            pq.write_table(tbl.set_column(tbl.schema.get_field_index("Me_1"), "Me_1", pa.array(col, type=tbl.schema.field("Me_1").type)), path)
            if not compare(model, got, folder, fmt):
                blind.append("parquet: tampered cell")
            pq.write_table(tbl, path)
        if compare(model, got, folder, fmt):
            blind.append(fmt + ": restored file not accepted")
        open(os.path.join(folder, "stray.tmp"), "w").write("x")
        if not compare(model, got, folder, fmt):
            blind.append(fmt + ": foreign file")
        os.remove(os.path.join(folder, "stray.tmp"))
        sp = os.path.join(folder, SCALARS_FILE)
        txt = open(sp, encoding="utf-8", newline="").read()
        open(sp, "w", encoding="utf-8", newline="").write(txt.replace("sc_r,4", "sc_r,5"))
        if not compare(model, got, folder, fmt):
            blind.append(fmt + ": wrong scalar")
        rec.count("self_test_tamperings_detected", 4 - len([b for b in blind if b.startswith(fmt)]))
        shutil.rmtree(folder, ignore_errors=True)
    if blind:
        rec.tool_error("oracle self-test: the comparer did not notice %s" % blind)
    if not rec.counters.get("self_test_tamperings_detected"):
        rec.note("oracle self-test skipped: the probe program already deviates")


class Check:
    ID = "C14"
    LEVEL = "exploration"
    RULE = ("complete lattice {csv, parquet} x {return_only_persistent True, False} over a fixed list of scripts with inline data covering "
            "every result column type, role and awkward value (thorough: plus every successful run() call of the recorded corpus). One case = "
            "one run with output_folder compared with the same call without it. distinct = (program name | type signature of the corpus "
            "result, format, return_only_persistent, outcome); non-trivial = the model run succeeded and returned at least one dataset or scalar.")
    ASSUMPTIONS = [
        "the run without output_folder is the model (differential oracle); numbers are compared with relative tolerance 1e-9, NaN/NA/None are one null",
        "CSV fields are typed with the semantic structure of the model: an unquoted empty field is null, a quoted empty field is the empty string",
        "recorded environment variables of corpus calls are not re-applied (both runs of a pair use the environment of the check)",
        "S3 / URL output folders are not exercised",
    ]

    def run(self, tier, seed, rec):
        harness.boot()
        for v in ("OUTPUT_NUMBER_SIGNIFICANT_DIGITS", "VTL_DUCKDB_DECIMAL_WIDTH"):
            os.environ.pop(v, None)
        progs = programs()
        names = harness.seeded_order([p["name"] for p in progs], seed)
        items = [{"kind": "program", "names": ch} for ch in harness.chunks(names, 3)]
        ncorpus = 0
        if tier == "thorough":
            from vtlmc import corpus
            recs = harness.seeded_order(corpus.load(fn="run", outcome="ok"), seed)
            ncorpus = len(recs)
            items += [{"kind": "corpus", "records": ch} for ch in harness.chunks(recs, 8)]
            if not recs:
                rec.tool_error("the corpus is empty")
        harness.pmap(work, items, rec)
        self_test(rec)
        if rec.counters.get("programs", 0) != len(progs):
            rec.tool_error("only %s of %d programs were executed" % (rec.counters.get("programs"), len(progs)))
        trivial_programs = sorted({p["name"] for p in progs} - {k[1] for k in rec.keys if k[0] == "program"})
        if trivial_programs:
            rec.note("programs whose model run failed or returned nothing under both settings: %s" % trivial_programs)
        if len(trivial_programs) > len(progs) // 10:
            rec.tool_error("too many hand-written programs do not run: %s" % trivial_programs)
        if not rec.counters.get("dataset_files_compared") or not rec.counters.get("scalar_files_compared") or not rec.counters.get("datapoints_compared"):
            rec.tool_error("non-vacuity: no dataset file / scalar file / datapoint was compared")
        tags = sorted({t for p in progs for t in p["tags"]})
        return {"exhaustive": True, "programs": len(progs), "corpus_calls": ncorpus, "configurations": len(FORMATS) * len(ROPS),
                "value_and_type_classes_covered_by_the_programs": tags}

    def replay(self, data):
        harness.boot()
        rec = harness.Recorder()
        if data["kind"] == "program":
            prog = _programs_by_name()[data["name"]]
            mk = lambda: materialise(prog)  # noqa: E731
        else:
            from vtlmc import corpus
            r = [x for x in corpus.load(fn="run") if x["id"] == data["id"]][0]
            mk = lambda: corpus.run_kwargs(r)  # noqa: E731
        found = check_call(mk, data["rop"], rec, lambda *a: ("replay",), {"kind": data["kind"], "name": data.get("name"), "id": data.get("id")}, _root("r"))
        for v in rec.violations:
            print("   %s :: %s" % (v["key"], v["what"][:400]))
        return data["key"] in found

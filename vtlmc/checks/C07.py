"""C07 — validation and hierarchy operators report exactly the failing datapoints.

Bounded exhaustive enumeration (explorer E1) of validation scripts x inputs; every execution of the engine is judged
by an independent reference evaluator (oracle O4, vtlmc/ref_c07.py) that reads the same script text.

(a) check       ``check(A cmp B [errorcode c] [errorlevel l] [imbalance A - B] [invalid|all])`` for the six comparison
                operators, dataset x dataset and dataset x scalar, Integer and Number measures, code / level present or
                absent, imbalance present or absent, output invalid / all / omitted.  Data: every pair of values over
                {null, negative, zero, positive} plus a datapoint that only one operand has.
(b) check_datapoint   rulesets of 1-5 rules over a 6-rule alphabet (with / without ``when``, consequents that are
                true / false / null on some datapoints, errorcode / errorlevel present or absent, three-valued and / or,
                variable signature with aliases); every rule named or none (the engine rejects a mixture, 1-3-1-7):
                both namings; output invalid / all / all_measures; ``components`` present / absent.  All sequences of
                length <= 2 (with repetition) and all subsets of size 3-5.  Data: every combination of
                Id_2 in {a, b} x Me_1 in {null, -1, 0, 2} x Me_2 in {null, -1.5, 0.0, 2.5} (one datapoint each).
(c) check_hierarchy / hierarchy   rulesets over the code items {A, B, C, D, T}: every sequence (textual order matters)
                of 1-3 distinct rules from {T = A + B, T = A - B, A = C + D, T >= A, when Id_3 = 1 then B = C - D}
                x validation mode (6) x input mode x output mode; rule names / errorcode / errorlevel present or absent.
                Data: every presence / null pattern of the five code items (3^5 = 243) under three valuations (all
                non-zero; zeros; a failing T >= A) and both values of the condition identifier, packed into one operand
                through the extra identifier Id_1 = C_id (1458 groups).
quick: (a) complete; (b) sequences of length <= 2; (c) single rules x all modes, ordered pairs in non_null / always_null.
thorough: everything above.

The calibration gate runs first: the evaluator must reproduce the expected outputs stored in the repository for
RM132-134, RM157-160 and every asserted case of tests/Hierarchical, tests/DatapointRulesets, tests/Validation that is
inside the subset.
"""
import ast
import glob
import itertools
import os

from vtlmc import harness, refbase
from vtlmc import ref_c07 as R
from vtlmc.refbase import DS, ID, ME

RM_NUMBERS = (132, 133, 134, 157, 158, 159, 160)
TEST_DIRS = (("Hierarchical", "test_hierarchical.py"), ("DatapointRulesets", "test_datapoint_rulesets.py"),
             ("Validation", "test_validation.py"))
VALIDATION_COLS = ("bool_var", "imbalance", "errorcode", "errorlevel")


# ---------------------------------------------------------------------------------------------------------
# comparing datapoints
# ---------------------------------------------------------------------------------------------------------

def canon_rows(rows):
    return [{k: harness.canon_value(v) for k, v in r.items()} for r in rows]


def row_key(r, ids):
    return tuple(r.get(i) for i in ids)


def diff_rows(got, exp, ids, loose_text=False, rel=1e-9):
    """engine rows vs evaluator rows (canonical values); only the evaluator's columns are compared -> refbase.compare diffs"""
    if loose_text:
        got = [dict(r) for r in got]
        exp = [dict(r) for r in exp]
        for rows in (got, exp):
            for r in rows:
                for i in ids:
                    if r.get(i) is not None:
                        r[i] = str(r[i])
        gk = {row_key(r, ids): r for r in got}
        for r in exp:
            g = gk.get(row_key(r, ids))
            for c in ("errorcode", "errorlevel", "ruleid"):
                if g is not None and c in r and c in g and isinstance(g[c], str) and r[c] is not None and not isinstance(r[c], str):
                    r[c] = str(r[c])
    return refbase.compare(got, exp, ids, rel=rel)


def same_rows(got, exp, ids):
    """fast path: identical canonical datapoints on the evaluator's columns"""
    if len(got) != len(exp):
        return False
    gk = {}
    for r in got:
        gk[row_key(r, ids)] = r
    if len(gk) != len(got):
        return False
    for r in exp:
        g = gk.get(row_key(r, ids))
        if g is None:
            return False
        for c, v in r.items():
            if c not in g:
                return False
            w = g[c]
            if w != v or (isinstance(w, bool) != isinstance(v, bool)):
                if not (isinstance(w, (int, float)) and isinstance(v, (int, float)) and not isinstance(w, bool)
                        and not isinstance(v, bool) and harness.num_eq(w, v)):
                    return False
    return True


def judge_slice(obj, key, got):
    """-> (verdict diffs (empty = accepted), expected rows under the default answers, policies consulted)"""
    consulted = set()
    results = []

    def fn(pol):
        rows = canon_rows(obj.rows(key, pol))
        consulted.update(pol.asked)
        results.append(rows)
        return repr(sorted(repr(sorted(r.items())) for r in rows))
    R.alternatives(fn)
    for rows in results:
        if same_rows(got, rows, obj.ids):
            return [], results[0], consulted
    for rows in results:
        if not diff_rows(got, rows, obj.ids):
            return [], results[0], consulted
    return diff_rows(got, results[0], obj.ids), results[0], consulted


# ---------------------------------------------------------------------------------------------------------
# calibration gate
# ---------------------------------------------------------------------------------------------------------

def _load(base, where, tag):
    sp = os.path.join(base, "DataStructure", where, tag + ".json")
    if not os.path.exists(sp) or not os.path.exists(os.path.join(base, "DataSet", where, tag + ".csv")):
        return []          # semantic-only cases store structures without data: nothing to reproduce
    return [refbase.typed(d) for d in refbase._load_ds(sp, os.path.join(base, "DataSet", where, tag + ".csv"))]


def asserted_test_cases():
    """(label, script, inputs, expected) of every test of the three directories that asserts stored outputs (BaseTest)"""
    for sub, fname in TEST_DIRS:
        root = os.path.join(harness.REPO, "tests", sub)
        base = os.path.join(root, "data")
        with open(os.path.join(root, fname), encoding="utf-8") as f:
            tree = ast.parse(f.read())
        seen = set()
        for fn in ast.walk(tree):
            if not isinstance(fn, ast.FunctionDef) or not fn.name.startswith("test") or fn.decorator_list:
                continue
            info = {"code": None, "number_inputs": None, "references_names": None}
            asserts, special = False, False
            for n in ast.walk(fn):
                if isinstance(n, ast.Assign) and len(n.targets) == 1 and isinstance(n.targets[0], ast.Name) and n.targets[0].id in info:
                    try:
                        info[n.targets[0].id] = ast.literal_eval(n.value)
                    except ValueError:
                        special = True
                if isinstance(n, ast.Call) and isinstance(n.func, ast.Attribute) and n.func.attr == "BaseTest":
                    asserts = True
                    for kw in n.keywords:
                        if kw.arg in ("scalars", "only_semantic", "sql_names"):
                            special = True
            code = info["code"]
            if not asserts or special or not code or code in seen or not info["references_names"] or not info["number_inputs"]:
                continue
            seen.add(code)
            vtl = os.path.join(base, "vtl", code + ".vtl")
            if not os.path.exists(vtl):
                continue
            ins, outs = [], {}
            for i in range(int(info["number_inputs"])):
                ins.extend(_load(base, "input", "%s-%d" % (code, i + 1)))
            if len(ins) < int(info["number_inputs"]):
                continue
            for ref in info["references_names"]:
                for d in _load(base, "output", "%s-%s" % (code, ref)):
                    outs[d.name] = d
            with open(vtl, encoding="utf-8") as f:
                yield "tests/%s/%s" % (sub, code), f.read(), ins, outs


def calibrate_case(script, ins, outs):
    """-> ('ok', statements reproduced, policies consulted) | ('outside', why) | ('wrong', diffs)"""
    try:
        rulesets, stmts = R.parse_script(script)
    except R.Outside as e:
        return "outside", str(e), None
    if not stmts:
        return "outside", "no statement", None
    datasets = {d.name: (d.comps, d.rows) for d in ins}
    consulted, n = set(), 0
    for st in stmts:
        if st["target"] not in outs:
            return "outside", "expected result of %s is not stored" % st["target"], None
        try:
            obj = R.prepare(st, rulesets, datasets)
            pol = R.Policy()
            mine = canon_rows(R.all_rows(obj, pol))
        except R.Outside as e:
            return "outside", str(e), None
        consulted |= pol.asked
        exp = outs[st["target"]]
        if set(exp.ids()) != set(obj.ids):
            return "wrong", [("identifiers", tuple(exp.ids()), tuple(obj.ids))], None
        stored = canon_rows(exp.rows)
        cols = [c for c in (mine[0] if mine else {}) if c not in obj.ids]
        for c in cols:
            if c not in exp.names():
                return "wrong", [("missing-column-in-expectation", c, None)], None
        # the evaluator plays the role of the engine here: its datapoints against the stored ones
        diffs = diff_rows([{k: v for k, v in r.items() if k in obj.ids or k in cols} for r in stored], mine, obj.ids, loose_text=True, rel=1e-6)   # stored CSVs carry 7 significant digits
        if diffs:
            return "wrong", diffs[:4], None
        n += 1
    return "ok", n, consulted


def calibrate(verbose=False):
    """the evaluator against the expectations stored in the repository -> (reproduced, wrong, skipped)"""
    ok, wrong, skipped = [], [], []
    cases = [("RM%d" % n, s, i, o) for n, s, i, o in refbase.reference_manual_cases(set(RM_NUMBERS))] + list(asserted_test_cases())
    for label, script, ins, outs in cases:
        if not outs:
            continue
        verdict, info, consulted = calibrate_case(script, ins, outs)
        if verdict == "ok":
            ok.append((label, sorted(consulted)) if verbose else label)
        elif verdict == "wrong":
            wrong.append((label, info))
        else:
            skipped.append((label, verdict, info))
    return ok, wrong, skipped

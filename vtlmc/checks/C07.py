"""C07 — validation and hierarchy operators report exactly the failing datapoints.

Bounded exhaustive enumeration (explorer E1) of validation scripts x inputs; every execution of the engine is judged
by an independent reference evaluator (oracle O4, vtlmc/ref_c07.py) that reads the same script text.

(a) check       ``check(A cmp B [errorcode c] [errorlevel l] [imbalance A - B] [invalid|all])`` for the six comparison
                operators, dataset x dataset and dataset x scalar, Integer and Number measures, code / level present or
                absent, imbalance present or absent, output invalid / all / omitted.  Data: every pair of values over
                {null, negative, zero, positive} plus a datapoint that only one operand has.
(b) check_datapoint   rulesets of 1-5 rules over a 6-rule alphabet (with / without ``when``, consequents that are
                true / false / null on some datapoints, errorcode / errorlevel present or absent, three-valued and / or,
                variable signature with aliases); every rule named or none (the engine rejects a mixture, 1-3-1-7):
                both namings; output invalid / all / all_measures; ``components`` present / absent.  All sequences of
                length <= 2 (with repetition) and all subsets of size 3-5.  Data: every combination of
                Id_2 in {a, b} x Me_1 in {null, -1, 0, 2} x Me_2 in {null, -1.5, 0.0, 2.5} (one datapoint each).
(c) check_hierarchy / hierarchy   rulesets over the code items {A, B, C, D, T}: every sequence (textual order matters)
                of 1-3 distinct rules from {T = A + B, T = A - B, A = C + D, T >= A, when Id_3 = 1 then B = C - D}
                x validation mode (6) x input mode x output mode; rule names / errorcode / errorlevel present or absent.
                Data: every presence / null pattern of the five code items (3^5 = 243) under three valuations (all
                non-zero; zeros; a failing T >= A) and both values of the condition identifier, packed into one operand
                through the extra identifier Id_1 = C_id (1458 groups).
quick: (a) complete; (b) sequences of length <= 2; (c) single rules x all modes, ordered pairs in non_null / always_null.
thorough: everything above.

The calibration gate runs first: the evaluator must reproduce the expected outputs stored in the repository for
RM132-134, RM157-160 and every asserted case of tests/Hierarchical, tests/DatapointRulesets, tests/Validation that is
inside the subset.
"""
import ast
import glob
import itertools
import os

from vtlmc import harness, refbase
from vtlmc import ref_c07 as R
from vtlmc.refbase import DS, ID, ME

RM_NUMBERS = (132, 133, 134, 157, 158, 159, 160)
TEST_DIRS = (("Hierarchical", "test_hierarchical.py"), ("DatapointRulesets", "test_datapoint_rulesets.py"),
             ("Validation", "test_validation.py"))
VALIDATION_COLS = ("bool_var", "imbalance", "errorcode", "errorlevel")


# ---------------------------------------------------------------------------------------------------------
# comparing datapoints
# ---------------------------------------------------------------------------------------------------------

def canon_rows(rows):
    return [{k: harness.canon_value(v) for k, v in r.items()} for r in rows]


def row_key(r, ids):
    return tuple(r.get(i) for i in ids)


def diff_rows(got, exp, ids, loose_text=False, rel=1e-9):
    """engine rows vs evaluator rows (canonical values); only the evaluator's columns are compared -> refbase.compare diffs"""
    if loose_text:
        got = [dict(r) for r in got]
        exp = [dict(r) for r in exp]
        for rows in (got, exp):
            for r in rows:
                for i in ids:
                    if r.get(i) is not None:
                        r[i] = str(r[i])
        gk = {row_key(r, ids): r for r in got}
        for r in exp:
            g = gk.get(row_key(r, ids))
            for c in ("errorcode", "errorlevel", "ruleid"):
                if g is not None and c in r and c in g and isinstance(g[c], str) and r[c] is not None and not isinstance(r[c], str):
                    r[c] = str(r[c])
    return refbase.compare(got, exp, ids, rel=rel)


def same_rows(got, exp, ids):
    """fast path: identical canonical datapoints on the evaluator's columns"""
    if len(got) != len(exp):
        return False
    gk = {}
    for r in got:
        gk[row_key(r, ids)] = r
    if len(gk) != len(got):
        return False
    for r in exp:
        g = gk.get(row_key(r, ids))
        if g is None:
            return False
        for c, v in r.items():
            if c not in g:
                return False
            w = g[c]
            if w != v or (isinstance(w, bool) != isinstance(v, bool)):
                if not (isinstance(w, (int, float)) and isinstance(v, (int, float)) and not isinstance(w, bool)
                        and not isinstance(v, bool) and harness.num_eq(w, v)):
                    return False
    return True


def judge_slice(obj, key, got):
    """-> (verdict diffs (empty = accepted), expected rows under the default answers, policies consulted)"""
    consulted = set()
    results = []

    def fn(pol):
        try:
            rows = canon_rows(obj.rows(key, pol))
        except KeyError:                 # the engine returned a datapoint outside every slice of the operand
            rows = []
        consulted.update(pol.asked)
        results.append(rows)
        return repr(sorted(repr(sorted(r.items())) for r in rows))
    R.alternatives(fn)
    for rows in results:
        if same_rows(got, rows, obj.ids):
            return [], results[0], consulted
    best = None
    for rows in results:
        d = diff_rows(got, rows, obj.ids)
        if not d:
            return [], results[0], consulted
        score = len(d) - 2 * len(ruleid_pairs(d, obj.ids))
        if best is None or score < best[0]:
            best = (score, d, rows)
    return best[1], best[2], consulted          # reported against the closest accepted reading


def ruleid_pairs(diffs, ids):
    """(missing, extra) datapoints that are the same datapoint under another rule identifier"""
    if "ruleid" not in ids:
        return []
    pos = ids.index("ruleid")
    miss = [d for d in diffs if d[0] == "missing-datapoint"]
    extra = [d for d in diffs if d[0] == "extra-datapoint"]
    out = []
    for m in miss:
        for e in extra:
            if m[1][:pos] == e[1][:pos] and m[1][pos] != e[1][pos] and all(refbase.val_eq(e[2].get(c), v) for c, v in m[2].items() if c != "ruleid"):
                out.append((m, e))
                break
    return out


# ---------------------------------------------------------------------------------------------------------
# calibration gate
# ---------------------------------------------------------------------------------------------------------

def _load(base, where, tag):
    sp = os.path.join(base, "DataStructure", where, tag + ".json")
    if not os.path.exists(sp) or not os.path.exists(os.path.join(base, "DataSet", where, tag + ".csv")):
        return []          # semantic-only cases store structures without data: nothing to reproduce
    return [refbase.typed(d) for d in refbase._load_ds(sp, os.path.join(base, "DataSet", where, tag + ".csv"))]


def asserted_test_cases():
    """(label, script, inputs, expected) of every test of the three directories that asserts stored outputs (BaseTest)"""
    for sub, fname in TEST_DIRS:
        root = os.path.join(harness.REPO, "tests", sub)
        base = os.path.join(root, "data")
        with open(os.path.join(root, fname), encoding="utf-8") as f:
            tree = ast.parse(f.read())
        seen = set()
        for fn in ast.walk(tree):
            if not isinstance(fn, ast.FunctionDef) or not fn.name.startswith("test") or fn.decorator_list:
                continue
            info = {"code": None, "number_inputs": None, "references_names": None}
            asserts, special = False, False
            for n in ast.walk(fn):
                if isinstance(n, ast.Assign) and len(n.targets) == 1 and isinstance(n.targets[0], ast.Name) and n.targets[0].id in info:
                    try:
                        info[n.targets[0].id] = ast.literal_eval(n.value)
                    except ValueError:
                        special = True
                if isinstance(n, ast.Call) and isinstance(n.func, ast.Attribute) and n.func.attr == "BaseTest":
                    asserts = True
                    for kw in n.keywords:
                        if kw.arg in ("scalars", "only_semantic", "sql_names"):
                            special = True
            code = info["code"]
            if not asserts or special or not code or code in seen or not info["references_names"] or not info["number_inputs"]:
                continue
            seen.add(code)
            vtl = os.path.join(base, "vtl", code + ".vtl")
            if not os.path.exists(vtl):
                continue
            ins, outs = [], {}
            for i in range(int(info["number_inputs"])):
                ins.extend(_load(base, "input", "%s-%d" % (code, i + 1)))
            if len(ins) < int(info["number_inputs"]):
                continue
            for ref in info["references_names"]:
                for d in _load(base, "output", "%s-%s" % (code, ref)):
                    outs[d.name] = d
            with open(vtl, encoding="utf-8") as f:
                yield "tests/%s/%s" % (sub, code), f.read(), ins, outs


def calibrate_case(script, ins, outs):
    """-> ('ok', statements reproduced, policies consulted) | ('outside', why) | ('wrong', diffs)"""
    try:
        rulesets, stmts = R.parse_script(script)
    except R.Outside as e:
        return "outside", str(e), None
    if not stmts:
        return "outside", "no statement", None
    datasets = {d.name: (d.comps, d.rows) for d in ins}
    consulted, n = set(), 0
    for st in stmts:
        if st["target"] not in outs:
            return "outside", "expected result of %s is not stored" % st["target"], None
        try:
            obj = R.prepare(st, rulesets, datasets)
            pol = R.Policy()
            mine = canon_rows(R.all_rows(obj, pol))
        except R.Outside as e:
            return "outside", str(e), None
        consulted |= pol.asked
        exp = outs[st["target"]]
        if set(exp.ids()) != set(obj.ids):
            return "wrong", [("identifiers", tuple(exp.ids()), tuple(obj.ids))], None
        stored = canon_rows(exp.rows)
        cols = [c for c in (mine[0] if mine else {}) if c not in obj.ids]
        for c in cols:
            if c not in exp.names():
                return "wrong", [("missing-column-in-expectation", c, None)], None
        # the evaluator plays the role of the engine here: its datapoints against the stored ones
        diffs = diff_rows([{k: v for k, v in r.items() if k in obj.ids or k in cols} for r in stored], mine, obj.ids, loose_text=True, rel=1e-6)   # stored CSVs carry 7 significant digits
        if diffs:
            return "wrong", diffs[:4], None
        n += 1
    return "ok", n, consulted


def calibrate(verbose=False):
    """the evaluator against the expectations stored in the repository -> (reproduced, wrong, skipped)"""
    ok, wrong, skipped = [], [], []
    cases = [("RM%d" % n, s, i, o) for n, s, i, o in refbase.reference_manual_cases(set(RM_NUMBERS))] + list(asserted_test_cases())
    for label, script, ins, outs in cases:
        if not outs:
            continue
        verdict, info, consulted = calibrate_case(script, ins, outs)
        if verdict == "ok":
            ok.append((label, sorted(consulted)) if verbose else label)
        elif verdict == "wrong":
            wrong.append((label, info))
        else:
            skipped.append((label, verdict, info))
    return ok, wrong, skipped


# ---------------------------------------------------------------------------------------------------------
# the space
# ---------------------------------------------------------------------------------------------------------

CMPS = ("=", "<>", "<", "<=", ">", ">=")
VAL_INT = (None, -1, 0, 2)
VAL_NUM = (None, -1.5, 0.0, 2.5)

# (b) the datapoint-rule alphabet; signature: variable Id_2, Me_1 as X, Me_2 as Y
DP_SIGNATURE = "variable Id_2, Me_1 as X, Me_2 as Y"
DP_COMPONENTS = "Id_2, Me_1, Me_2"
DP_RULES = (
    'X > 0 errorcode "E1" errorlevel 1',
    'when Id_2 = "a" then X >= Y errorcode "E2"',
    'when Y < 2 then X <> 0 errorlevel 3',
    'X + Y > 0 or Id_2 = "b"',
    'when Id_2 = "b" and X > 0 then isnull(Y) errorcode "E5" errorlevel 5',
    'not isnull(X) and nvl(Y, 0.0) >= 0 errorcode "E6" errorlevel 6',
)
DP_OUTPUTS = ("invalid", "all", "all_measures")

# (c) the hierarchical-rule alphabet over the code items A B C D T
HR_RULES = (
    'T = A + B errorcode "E1" errorlevel 1',
    'T = A - B errorcode "E2"',
    'A = C + D',
    'T >= A errorlevel 4',
    'when Id_3 = 1 then B = C - D errorcode "E5" errorlevel 5',
)
HR_WHEN = 4
ITEMS = "ABCDT"
VALUATIONS = (
    {"A": 1, "B": 2, "C": 4, "D": -3, "T": 3},        # no zero; T = A + B and A = C + D hold
    {"A": 0, "B": 0, "C": 2, "D": -2, "T": 0},        # zeros; C + D cancels to zero
    {"A": 5, "B": -2, "C": 0, "D": 5, "T": 3},        # T >= A fails
)
CHECK_OUTPUTS = ("invalid", "all", "all_measures")
HIER_INPUTS = ("dataset", "rule", "rule_priority")
HIER_OUTPUTS = ("computed", "all")


def check_data():
    """(a): operands of the same identifiers; every pair of values plus a datapoint only one operand has"""
    out = {}
    for tag, vals, typ in (("I", VAL_INT, "Integer"), ("N", VAL_NUM, "Number")):
        comps = [("Id_1", "Integer", ID), ("Id_2", "String", ID), ("Me_1", typ, ME)]
        left, right = [], []
        for i, (x, y) in enumerate(itertools.product(vals, vals)):
            left.append({"Id_1": i, "Id_2": "ab"[i % 2], "Me_1": x})
            right.append({"Id_1": i, "Id_2": "ab"[i % 2], "Me_1": y})
        left.append({"Id_1": 100, "Id_2": "a", "Me_1": vals[3]})
        right.append({"Id_1": 101, "Id_2": "b", "Me_1": vals[1]})
        out["D%s_1" % tag] = (comps, left)
        out["D%s_2" % tag] = (comps, right)
    return out


def check_statements():
    """(a): -> list of statement texts (without target)"""
    out = []
    for tag, scalar in (("I", "0"), ("N", "2.5")):
        for op in CMPS:
            for shape in ("ds-ds", "ds-scalar"):
                a, b = "D%s_1" % tag, ("D%s_2" % tag if shape == "ds-ds" else scalar)
                for code, level in itertools.product((False, True), repeat=2):
                    for imb in (False, True):
                        for output in ("invalid", "all", ""):
                            text = "check(%s %s %s%s%s%s%s)" % (a, op, b, ' errorcode "EC"' if code else "", " errorlevel 3" if level else "",
                                                                " imbalance %s - %s" % (a, b) if imb else "", " " + output if output else "")
                            out.append(text)
    return out


def dp_data():
    comps = [("Id_1", "Integer", ID), ("Id_2", "String", ID), ("Me_1", "Integer", ME), ("Me_2", "Number", ME)]
    rows = [{"Id_1": i, "Id_2": k, "Me_1": x, "Me_2": y} for i, (k, x, y) in enumerate(itertools.product("ab", VAL_INT, VAL_NUM))]
    return {"DS_1": (comps, rows)}


def dp_rulesets(tier):
    seqs = [(i,) for i in range(6)] + list(itertools.product(range(6), repeat=2))
    if tier == "thorough":
        for n in (3, 4, 5):
            seqs += list(itertools.combinations(range(6), n))
    return seqs


def dp_script(seq):
    """both namings of the ruleset, 3 outputs x components present / absent = 12 statements"""
    parts = []
    for named in (False, True):
        rules = ["%s%s" % ("n%d_%d : " % (k, pos) if named else "", DP_RULES[k]) for pos, k in enumerate(seq)]
        parts.append("define datapoint ruleset dpr_%s (%s) is\n  %s\nend datapoint ruleset;" % ("n" if named else "u", DP_SIGNATURE, ";\n  ".join(rules)))
    n = 0
    for named in (False, True):
        for output in DP_OUTPUTS:
            for comps in (False, True):
                n += 1
                parts.append("R_%d <- check_datapoint(DS_1, dpr_%s%s %s);" % (n, "n" if named else "u", " components " + DP_COMPONENTS if comps else "", output))
    return "\n".join(parts)


def hr_data(mtype):
    """(c): Id_1 = C_id (one group per pattern x valuation x condition value), Id_3 = condition value, Id_2 = code item"""
    comps = [("Id_1", "Integer", ID), ("Id_3", "Integer", ID), ("Id_2", "String", ID), ("Me_1", mtype, ME)]
    rows, cid = [], 0
    for pattern in itertools.product((0, 1, 2), repeat=5):          # 0 absent, 1 null, 2 value
        for v in range(len(VALUATIONS)):
            for flag in (0, 1):
                for item, state in zip(ITEMS, pattern):
                    if state:
                        val = VALUATIONS[v][item] if state == 2 else None
                        rows.append({"Id_1": cid, "Id_3": flag, "Id_2": item, "Me_1": (float(val) if mtype == "Number" and val is not None else val)})
                cid += 1
    return {"DS_1": (comps, rows)}


def hr_rulesets(tier):
    seqs = [(i,) for i in range(5)] + list(itertools.permutations(range(5), 2))
    if tier == "thorough":
        seqs += list(itertools.permutations(range(5), 3))
    return seqs


def hr_definition(seq, named):
    cond = HR_WHEN in seq
    rules = ["%s%s" % ("h%d : " % k if named else "", HR_RULES[k]) for k in seq]
    head = "define hierarchical ruleset hr (variable %srule Id_2) is\n  %s\nend hierarchical ruleset;" % ("condition Id_3 " if cond else "", ";\n  ".join(rules))
    return head, (" condition Id_3" if cond else "")


def hr_script(seq, named, fn, modes):
    head, cond = hr_definition(seq, named)
    parts, n = [head], 0
    for mode in modes:
        if fn == "check_hierarchy":
            for output in CHECK_OUTPUTS:
                n += 1
                # the defaults are exercised too: ``dataset`` and ``invalid`` / ``non_null`` are omitted in some statements
                parts.append("R_%d <- check_hierarchy(DS_1, hr%s rule Id_2%s%s%s);" % (
                    n, cond, "" if (mode == "non_null" and output == "all") else " " + mode,
                    " dataset" if output != "all_measures" else "", "" if (output == "invalid" and mode == "always_zero") else " " + output))
        else:
            for inp in HIER_INPUTS:
                for output in HIER_OUTPUTS:
                    n += 1
                    parts.append("R_%d <- hierarchy(DS_1, hr%s rule Id_2%s%s%s);" % (
                        n, cond, "" if (mode == "non_null" and inp == "dataset") else " " + mode,
                        "" if (inp == "rule" and output == "all") else " " + inp, "" if (output == "computed" and mode == "partial_zero") else " " + output))
    return "\n".join(parts)


def space(tier):
    items = []
    stmts = check_statements()
    for i in range(0, len(stmts), 24):
        items.append({"part": "a", "stmts": stmts[i:i + 24]})
    for seq in dp_rulesets(tier):
        items.append({"part": "b", "seq": list(seq)})
    for seq in hr_rulesets(tier):
        modes = list(R.MODES) if (len(seq) == 1 or tier == "thorough") else ["non_null", "always_null"]
        for named in (False, True):
            for fn in ("check_hierarchy", "hierarchy"):
                items.append({"part": "c", "seq": list(seq), "named": named, "fn": fn, "modes": modes})
    items.append({"part": "c-dataset-priority"})
    return items


# ---------------------------------------------------------------------------------------------------------
# executing one script and judging every slice of every statement
# ---------------------------------------------------------------------------------------------------------

def to_ds(datasets, seed=0, only=None):
    out = []
    for name, (comps, rows) in datasets.items():
        rows = [r for r in rows if only is None or only(name, r)]
        out.append(DS(name, comps, harness.seeded_order(rows, seed)))
    return out


def engine_slices(dataset, slice_ids, rec=None):
    rows = harness.dataset_rows(dataset) or []
    out = {}
    for r in rows:
        # a numeric errorlevel comes back as text when another rule of the ruleset has none (the data type of the
        # component is C10's business): compared by value
        v = r.get("errorlevel")
        if isinstance(v, str):
            try:
                r["errorlevel"] = harness.canon_value(float(v))
                if rec is not None:
                    rec.count("errorlevel_returned_as_text")
            except ValueError:
                pass
        out.setdefault(tuple(r.get(i) for i in slice_ids), []).append(r)
    return out


def state_of(v):
    if v is R.ABSENT:
        return "absent"
    if v is None:
        return "null"
    return "zero" if v == 0 else "value"


def describe(obj, key, diffs):
    """-> (rule shape, equivalence class of the failing input, kind of deviation) for the differences of a slice"""
    kind, dkey, detail = diffs[0]
    for k2, _, d2 in diffs:          # a wrong validation outcome is the more telling difference
        if k2 == "wrong-value" and d2[0] in ("bool_var", "imbalance"):
            kind, detail = k2, d2
            break
    if kind == "wrong-value" and detail[0] in ("errorcode", "errorlevel"):
        kind = "wrong-errorcode"
    if kind == "wrong-value":
        kind = "wrong-value(%s)" % ("measure" if detail[0] not in VALIDATION_COLS else detail[0])
    call = obj.call
    pol = R.Policy()
    if call["fn"] == "check":
        b = obj.all_rows[key]["bool_var"]
        return "any", "comparison-is-%s" % {True: "true", False: "false", None: "null"}[b], kind
    if "ruleid" in obj.ids:
        # the same datapoint reported under another rule identifier
        if ruleid_pairs(diffs, obj.ids) or renumbered(obj, key, diffs):
            named = any(r["name"] is not None for r in obj.rs["rules"])
            return ("named-rules" if named else "unnamed-rules"), "ruleset-" + rule_order_class(obj.rs), "wrong-value(ruleid)"
    if call["fn"] == "check_datapoint":
        rid = dict(zip(obj.ids, dkey)).get("ruleid")
        k = obj.names.index(rid) if rid in obj.names else 0
        _, w, t, b, _ = obj.outcomes(key, pol)[k]
        name = {True: "true", False: "false", None: "null"}
        shape = "rule-with-when" if obj.rs["rules"][k]["when"] is not None else "rule-without-when"
        return shape, "when-%s/consequent-%s" % (name[w], name[t] if w is True else "not-evaluated"), kind
    items = obj.groups[key]
    if obj.check:
        rid = dict(zip(obj.ids, dkey)).get("ruleid")
        k = obj.names.index(rid) if rid in obj.names else 0
        rule = obj.rs["rules"][k]
        shape = "rule-with-when" if rule["when"] is not None else "plain-rule"
        _, prod, w, lv, rv, b, _ = obj.rule_outcomes(key, pol)[k]
        right = sorted(set(state_of(items.get(n, R.ABSENT)) for _, n in rule["right"]))
        cls = "left-%s/right-%s" % (state_of(items.get(rule["left"], R.ABSENT)), "+".join(right))
        if w is False:
            cls += "/when-false"
        return shape, cls, kind
    # the first rule (in dependency order) whose item differs is the one to describe: later ones inherit the deviation
    lefts = [r["left"] for r in obj.order]
    pos = obj.ids.index(obj.rule_comp)
    first = min(diffs, key=lambda d: lefts.index(d[1][pos]) if d[1][pos] in lefts else len(lefts))
    item = first[1][pos]
    kind = "wrong-value(measure)" if first[0] == "wrong-value" else first[0]
    rule = next((r for r in obj.order if r["left"] == item), None)
    if rule is None:
        return "no-rule", "datapoint-of-the-operand", kind
    dep = [n for _, n in rule["right"] if n in obj.defined]
    shape = "rule-with-when" if rule["when"] is not None else "plain-rule"
    if dep:
        cls = "right-item-computed-by-another-rule"
    else:
        cls = "right-" + "+".join(sorted(set(state_of(items.get(n, R.ABSENT)) for _, n in rule["right"])))
    if rule["when"] is not None and not obj._when(rule, dict(zip(obj.other, key))):
        cls += "/when-false"
    return shape, cls, kind


def rule_order_class(rs):
    """does a rule use an item that another rule of the ruleset computes / validates as its left side?"""
    lefts = {}
    for i, r in enumerate(rs["rules"]):
        lefts.setdefault(r["left"], i)
    for i, r in enumerate(rs["rules"]):
        for _, n in r["right"]:
            if n in lefts and lefts[n] != i:
                return "with-a-rule-depending-on-another"
    return "without-dependent-rules"


_LAST = {}


def renumbered(obj, key, diffs):
    """are the engine's datapoints of the slice the expected ones under a renumbering of the rule identifiers?"""
    got, exp = _LAST.get("got"), _LAST.get("exp")
    if got is None or len(obj.names) > 5:
        return False
    for perm in itertools.permutations(obj.names):
        if list(perm) == list(obj.names):
            continue
        ren = dict(zip(obj.names, perm))
        if same_rows(got, [dict(r, ruleid=ren.get(r["ruleid"], r["ruleid"])) for r in exp], obj.ids):
            return True
    return False


def coverage_class(obj, key):
    """-> (class of the slice for the coverage key, non-trivial?)"""
    pol = R.Policy()
    call = obj.call
    name = {True: "T", False: "F", None: "N"}
    if call["fn"] == "check":
        r = obj.all_rows[key]
        return "bool=%s,imbalance=%s" % (name[r["bool_var"]], "null" if r["imbalance"] is None else "value"), r["bool_var"] is not None
    if call["fn"] == "check_datapoint":
        outs = obj.outcomes(key, pol)
        return " ".join("%s>%s" % (name[w], name[t] if w is True else "-") for _, w, t, _, _ in outs), any(w is True for _, w, _, _, _ in outs)
    if obj.check:
        outs = obj.rule_outcomes(key, pol)
        cls = " ".join(("-" if not prod else ("w" if w is False else name[b])) for _, prod, w, _, _, b, _ in outs)
        return cls, any(prod for _, prod, _, _, _, _, _ in outs)
    computed, trace = obj.computed(key, pol)
    cls = " ".join("%s:%s%s" % (left, what[0], "".join(sorted(set(o[0] for o in origin.values())))) for left, origin, what in trace)
    return cls, bool(computed)


def statement_tag(call):
    if call["fn"] == "check":
        return ("check", call["op"], "ds-scalar" if call["right"][0] == "const" else "ds-ds", call["errorcode"] is not None,
                call["errorlevel"] is not None, call["imbalance"] is not None, call["output"])
    if call["fn"] == "check_datapoint":
        return ("check_datapoint", call["output"], call["components"] is not None)
    return (call["fn"], call["mode"], call["input"], call["output"])


def dims_of(call):
    if call["fn"] == "check":
        return {"output": call["output"]}
    if call["fn"] == "check_datapoint":
        return {"output": call["output"]}
    return {"mode": call["mode"], "input": call["input"], "output": call["output"]}


def single_script(script_rulesets_text, stmt_text):
    return script_rulesets_text + "\nR_1 <- " + stmt_text + ";"


def run_and_judge(script, datasets, rec, extra, seed=0, defs_text="", stmt_texts=None):
    """run one script on the engine, judge every slice of every statement against the evaluator.
    -> list of failures [{fn, dims, shape, cls, kind, what, replay}]"""
    rulesets, stmts = R.parse_script(script)
    out = refbase.run(script, to_ds(datasets, seed))
    failures = []
    if out[0] != "ok":
        failures.append({"fn": stmts[0]["call"]["fn"], "dims": {}, "shape": "any", "cls": "any", "kind": "raw-error:%s" % out[2] if out[1] == "raw" else "vtl-error:%s" % out[3],
                         "what": "script raised %s %s: %s\n%s" % (out[2], out[3], out[4][:200], script[:600]),
                         "replay": {"script": script, "datasets": pack(datasets), "expect": "no-error"}, "all_dims": {}})
        rec.case(("script-error", extra), "engine-error")
        return failures
    cover = {}
    for si, st in enumerate(stmts):
        obj = R.prepare(st, rulesets, datasets)
        res = out[1].get(st["target"])
        if res is None:
            failures.append({"fn": st["call"]["fn"], "dims": {}, "shape": "any", "cls": "any", "kind": "missing-result", "all_dims": {},
                             "what": "no result %s" % st["target"], "replay": {"script": script, "datasets": pack(datasets), "expect": "result"}})
            continue
        got = engine_slices(res, obj.slice_ids, rec)
        tag = statement_tag(st["call"])
        keys = list(obj.keys())
        known = set(keys)
        keys += [key for key in got if key not in known]       # datapoints the evaluator has no slice for are extra
        n_failed = 0
        for key in keys:
            g = got.get(key, [])
            diffs, exp, consulted = judge_slice(obj, key, g)
            try:
                cls, nontrivial = coverage_class(obj, key)
            except KeyError:
                cls, nontrivial = "datapoint-outside-the-operand", True
            outcome = "violation" if diffs else ("accepted-alternative" if consulted and not same_rows(g, exp, obj.ids) else "ok")
            c = cover.setdefault((tag, extra, cls, outcome), [0, nontrivial])
            c[0] += 1
            for p in consulted:
                rec.count("policy_consulted:" + p)
            if diffs:
                n_failed += 1
                if n_failed <= 40:
                    try:
                        _LAST.update(got=g, exp=exp)
                        shape, fcls, kind = describe(obj, key, diffs)
                    except (KeyError, ValueError, IndexError):
                        shape, fcls, kind = "any", "unclassified", diffs[0][0]
                    failures.append({"fn": st["call"]["fn"], "dims": dims_of(st["call"]), "shape": shape, "cls": fcls, "kind": kind,
                                     "stmt": stmt_texts[si] if stmt_texts else None, "key": key, "slice_ids": obj.slice_ids,
                                     "diffs": diffs[:3], "expected": exp, "got": g})
    first = True
    for (tag, ex, cls, outcome), (n, nontrivial) in sorted(cover.items(), key=repr):
        sample = None
        if first and nontrivial:
            sample, first = {"statement": list(tag), "ruleset": ex, "slice_class": cls, "slices": n, "outcome": outcome}, False
        rec.case((tag, ex, cls), outcome, nontrivial=nontrivial, n=n, sample=sample)
    return failures


def pack(datasets):
    return {name: {"comps": [list(c) for c in comps], "rows": rows} for name, (comps, rows) in datasets.items()}


def unpack(d):
    return {name: ([tuple(c) for c in v["comps"]], v["rows"]) for name, v in d.items()}


def still_fails(script, datasets):
    """re-execute a (minimised) script on the engine and judge it -> (fails?, description)"""
    try:
        rulesets, stmts = R.parse_script(script)
    except R.Outside as e:
        return False, "outside: %s" % e
    out = refbase.run(script, to_ds(datasets))
    if out[0] != "ok":
        return True, "raised %s %s: %s" % (out[2], out[3], out[4][:200])
    for st in stmts:
        obj = R.prepare(st, rulesets, datasets)
        got = engine_slices(out[1][st["target"]], obj.slice_ids)
        for key in set(obj.keys()) | set(got):
            diffs, exp, _ = judge_slice(obj, key, got.get(key, []))
            if diffs:
                return True, "engine %s; expected %s (%s)" % (compact(got.get(key, [])), compact(exp), diffs[0][0])
    return False, "agrees"


def compact(rows):
    return "[" + "; ".join(", ".join("%s=%s" % (k, v) for k, v in r.items()) for r in rows) + "]"


def report(failures, defs_text, datasets, all_dims, rec):
    """turn the failures of one script into violations: one finding key per (operator, rule shape, input class, deviation),
    the option values generalised to * when every enumerated value of that option fails"""
    groups = {}
    for f in failures:
        groups.setdefault((f["fn"], f["shape"], f["cls"], f["kind"] if "replay" in f else ""), []).append(f)
    for (fn, shape, cls, kind), fs in sorted(groups.items(), key=lambda kv: repr(kv[0])):
        if "replay" in fs[0]:           # the whole script failed
            rec.violation("C07:%s:%s:%s:%s" % (fn, shape, cls, kind), fs[0]["what"], fs[0]["replay"])
            continue
        # one finding key per (operator, options, rule shape, input class): the most telling deviation names it
        kinds = sorted(set(f["kind"] for f in fs), key=lambda k: (KIND_PRIORITY.index(k.split("(")[0]) if k.split("(")[0] in KIND_PRIORITY else 9, k))
        dims = []
        for d in sorted(all_dims.get(fn, {})):
            vals = sorted(set(f["dims"][d] for f in fs))
            dims.append("%s=%s" % (d, "*" if len(vals) > 1 and vals == sorted(all_dims[fn][d]) else "+".join(vals)))
        if kinds[0] == "wrong-value(ruleid)":
            dims = []                   # the rule identifier does not depend on the options of the operator
        key = "C07:%s:%s:%s:%s" % (fn, "/".join(dims + [shape]), cls, kinds[0])
        fs = [f for f in fs if f["kind"] == kinds[0]]
        f = min(fs, key=lambda f: (len(f["got"]) + len(f["expected"]), repr(f["key"]), f["stmt"]))
        # minimise: the failing slice alone, the failing statement alone
        sl = dict(zip(f["slice_ids"], f["key"]))
        small = {name: (comps, [r for r in rows if all(harness.canon_value(r.get(i)) == v for i, v in sl.items())]) for name, (comps, rows) in datasets.items()}
        script = single_script(defs_text, f["stmt"])
        fails, how = still_fails(script, small)
        if not fails:
            small = datasets
            fails, how = still_fails(script, small)
            key += "(only-in-packed-input)"
        what = "%s on %s: engine returned %s, expected %s [%s] (%d slices of this class in the script%s)" % (
            script.replace("\n", " "), compact([r for rows in small.values() for r in rows[1]][:12]), compact(f["got"]), compact(f["expected"]),
            "; ".join("%s %s" % (d[0], d[2]) for d in f["diffs"]), len(fs), "; deviations seen in this class: " + ", ".join(kinds) if len(kinds) > 1 else "")
        if not fails:
            rec.tool_error("failure does not reproduce in isolation: %s" % what[:400])
            continue
        rec.violation(key, what, {"script": script, "datasets": pack(small), "expect": "agree"})


KIND_PRIORITY = ("wrong-value", "wrong-errorcode", "extra-datapoint", "missing-datapoint")


def enumerated_dims(stmts):
    out = {}
    for st in stmts:
        for d, v in dims_of(st["call"]).items():
            out.setdefault(st["call"]["fn"], {}).setdefault(d, set()).add(v)
    return out


def work(item, rec):
    harness.boot()
    seed = item.get("seed", 0)
    if item["part"] == "a":
        datasets = check_data()
        script = "\n".join("R_%d <- %s;" % (i + 1, t) for i, t in enumerate(item["stmts"]))
        defs, texts, extra = "", item["stmts"], "a"
    elif item["part"] == "b":
        datasets = dp_data()
        script = dp_script(item["seq"])
        defs = script[:script.index("R_1 <-")]
        texts = [ln[ln.index("<-") + 2:].strip().rstrip(";") for ln in script.splitlines() if ln.startswith("R_")]
        extra = "b:%s" % ("-".join(str(k) for k in item["seq"]))
    elif item["part"] == "c":
        datasets = hr_data("Number" if item["named"] else "Integer")
        script = hr_script(item["seq"], item["named"], item["fn"], item["modes"])
        defs = script[:script.index("R_1 <-")]
        texts = [ln[ln.index("<-") + 2:].strip().rstrip(";") for ln in script.splitlines() if ln.startswith("R_")]
        extra = "c:%s:%s" % ("-".join(str(k) for k in item["seq"]), "named/Number" if item["named"] else "unnamed/Integer")
    else:
        return dataset_priority(rec)
    try:
        rulesets, stmts = R.parse_script(script)
        for st in stmts:
            R.prepare(st, rulesets, datasets)
    except R.Outside as e:
        # the evaluator has no reading of the script (two '=' rules for one item, no '=' rule): the engine must not crash raw
        out = refbase.run(script, to_ds(datasets, seed))
        outcome = "outside-subset:" + ("accepted" if out[0] == "ok" else "%s-error" % out[1])
        rec.case(("outside", extra, item.get("fn"), str(e)), outcome, nontrivial=False)
        if out[0] == "err" and out[1] == "raw":
            rec.violation("C07:%s:ruleset-%s:any:raw-error:%s" % (item.get("fn"), str(e).replace(" ", "-"), out[2]),
                          "script raised raw %s: %s\n%s" % (out[2], out[4][:200], script[:400]),
                          {"script": script, "datasets": pack({k: (c, r[:20]) for k, (c, r) in datasets.items()}), "expect": "no-raw-error"})
        return
    failures = run_and_judge(script, datasets, rec, extra, seed=seed, defs_text=defs, stmt_texts=texts)
    if failures:
        report(failures, defs, datasets, enumerated_dims(stmts), rec)


def dataset_priority(rec):
    """check_hierarchy ... dataset_priority: documented input mode; executed once per output (it aborts the statement)"""
    datasets = hr_data("Integer")
    small = {"DS_1": (datasets["DS_1"][0], [r for r in datasets["DS_1"][1] if r["Id_1"] in (1457, 1451)])}
    for seq in ((0,), (2, 0)):
        head, cond = hr_definition(seq, False)
        script = head + "\nR_1 <- check_hierarchy(DS_1, hr%s rule Id_2 non_null dataset_priority all);" % cond
        out = refbase.run(script, to_ds(small))
        rec.case(("check_hierarchy", "dataset_priority", seq), "engine-error" if out[0] != "ok" else "not-modelled-accepted", nontrivial=out[0] != "ok")
        if out[0] == "err" and out[1] == "raw":
            rec.violation("C07:check_hierarchy:input=dataset_priority:any:raw-error:%s" % out[2],
                          "check_hierarchy with the documented input mode dataset_priority raises a raw %s (%s): %s" % (out[2], out[4][:120], script.splitlines()[-1]),
                          {"script": script, "datasets": pack(small), "expect": "no-raw-error"})


# ---------------------------------------------------------------------------------------------------------

class Check:
    ID = "C07"
    LEVEL = "exploration"
    RULE = ("case = one validation statement x one slice of the packed input (check / check_datapoint: one datapoint; check_hierarchy / "
            "hierarchy: one group of identifiers = one presence / null pattern of the code items under one valuation and condition value), "
            "executed on the engine and compared with the reference evaluator; distinct = (operator, options of the statement, ruleset, "
            "outcome class of the slice: per rule not produced / true / false / null / when-false, resp. which inputs a computed item "
            "used); non-trivial = at least one rule was evaluated (produced) for the slice")
    ASSUMPTIONS = [
        "three-valued logic: a comparison with null is null; bool_var null is neither valid nor invalid: no errorcode / errorlevel, not in invalid output",
        "ruleid = the rule name, or the ordinal position when no rule is named (RM157-159); rulesets naming only some rules are rejected by the engine (1-3-1-7) and not in the alphabet",
        "check_datapoint: antecedent false -> the rule holds (true); antecedent null is not crisp: bool_var null or true accepted (policy dp-when-null), never a failure",
        "hierarchical modes follow the table of the manual (missing counts as null / zero, condition for evaluating the rule, datapoints returned); non_zero for hierarchy "
        "returns a computed item unless it is 0 (RM133); partial_*: at least one involved item exists with a non-null value (RM134, RM159)",
        "pinned by the stored expectations (the other reading does not reproduce them): " + "; ".join("%s: %s" % kv for kv in sorted(R.PINNED.items())),
        "accepted in both readings (manual not crisp, stored expectations silent): " + "; ".join("%s: %s" % kv for kv in sorted(R.POLICIES.items())),
        "hierarchy: only '=' rules compute; rules are applied in dependency order whatever the textual order (tests/Hierarchical GH_567_1); input mode dataset takes every "
        "right-side item from the operand, rule takes items defined by another '=' rule from that rule's output, rule_priority prefers the computed non-null value",
        "rulesets with two '=' rules for the same item (hierarchy) or without '=' rule are outside the subset: only 'no raw error' is required",
        "check_hierarchy input mode dataset_priority is not modelled (no stored expectation; the engine does not implement it): only 'no raw error' is required",
        "condition components are identifiers and never null; structures / data types of the results are C10's business, only datapoints are compared; numbers at 1e-9",
    ]

    def run(self, tier, seed, rec):
        harness.boot()
        ok, wrong, skipped = calibrate()
        for label, verdict, info in skipped:
            rec.count("calibration_" + verdict)
        rec.note("calibration: outside the modelled subset: " + ", ".join("%s (%s)" % (a.split("/", 1)[-1], b) for a, _, b in skipped))
        base = {"exhaustive": False, "traces_validated_against_impl": len(ok), "not_modelled": NOT_MODELLED}
        if wrong:
            for label, info in wrong:
                rec.tool_error("oracle not calibrated: reference evaluator disagrees with the stored expectation of %s: %s" % (label, info))
            return base
        missing = [n for n in RM_NUMBERS if "RM%d" % n not in ok]
        if len(ok) < 60 or missing:
            rec.tool_error("calibration corpus too small: %d cases reproduced, RM examples missing: %s" % (len(ok), missing))
            return base
        items = space(tier)
        for it in items:
            it["seed"] = seed
        harness.pmap(work, harness.seeded_order(items, seed), rec)
        rec.violations.sort(key=lambda v: (v["key"], len(str(v["replay"])), v["what"]))
        ops = set(k[0][0] for k in rec.keys if isinstance(k, tuple) and isinstance(k[0], tuple))
        for fn in ("check", "check_datapoint", "check_hierarchy", "hierarchy"):
            if fn not in ops:
                rec.tool_error("operator %s was never exercised non-trivially" % fn)
        base.update({"exhaustive": True, "work_items": len(items), "calibration_cases_outside_subset": len(skipped),
                     "datapoint_rulesets": len(dp_rulesets(tier)), "hierarchical_rulesets": len(hr_rulesets(tier)),
                     "groups_per_hierarchical_operand": 243 * len(VALUATIONS) * 2,
                     "policies": sorted(R.POLICIES), "pinned_by_stored_expectations": sorted(R.PINNED)})
        return base

    def replay(self, data):
        harness.boot()
        datasets = unpack(data["datasets"])
        if data.get("expect") in ("no-raw-error", "no-error", "result"):
            out = refbase.run(data["script"], to_ds(datasets))
            return out[0] == "err" and (out[1] == "raw" or data["expect"] != "no-raw-error")
        return still_fails(data["script"], datasets)[0]


NOT_MODELLED = [
    "check_hierarchy input mode dataset_priority (no stored expectation in the repository; the engine raises NotImplementedError)",
    "code items with a condition  A [cond]  on the right side of a hierarchical rule (tests GL_397_34-37, GL_566_1)",
    "valuedomain signatures of datapoint rulesets and the empty variable signature (GH_844_1); non-boolean consequents (tests 1-1-1-9/10)",
    "hierarchical rulesets with two '=' rules for one item or without '=' rule under hierarchy (engine: 1-1-10-10 / 1-1-10-5)",
    "rulesets that name only some rules (engine: 1-3-1-7)",
    "validation operators followed by a clause or applied to an expression operand (tests/Validation 1-1-1-1..13, GL_cs_22, GL_463_1)",
]

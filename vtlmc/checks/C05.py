"""C05 — set operators match datapoints by identifiers across all operands.

Bounded exhaustive enumeration (explorer E1) of set expressions x inputs; every execution is judged by the
property statement itself, written down as ten lines of set algebra (oracle O4, vtlmc/ref_c05.py):

  operators   union, intersect with 2, 3, 4 operands; setdiff, symdiff with 2
  operands    input datasets | DS_m[filter Id_1 <> 1] as last operand | DS_1[filter Me_1 > 101] as first operand |
              nested: outer(inner(DS_1, DS_2), DS_3) and outer(DS_1, inner(DS_2, DS_3)) for all 4 x 4 (outer, inner); a failing
              composite is blamed only when its inner and outer operator hold alone on the same datasets, and on the inner
              operator when it fails under at least two different outer operators
  structures  component order equal in all operands | operands 2.. in reversed component order | operand 1 reversed
  data        a key universe of k keys; every operand is every subset of the keys: (2^k)^m input cases, packed into one
              run through the extra identifier C_id (set operators match on all identifiers, so the slices are
              independent and the oracle evaluates the packed script on the packed data anyway);
              measure value = 100 * operand index + key index, so the operand a datapoint was taken from is observable
  unpacked    every operand wholly empty or full (2^m combinations), structures without C_id (once per operator x operand count)

quick: k = 2 for m <= 4, k = 3 for m = 2, one identifier (Id_1:Integer), one measure.  thorough: additionally k = 3 for
m <= 4 with two identifiers (Id_1:Integer, Id_2:String) and two measures (Me_1:Integer, Me_2:String).

Calibration gate: the evaluator must reproduce the stored expectations of the Reference-Manual examples RM126-RM131 and
of the set-operator cases of tests/Additional, tests/Bugs and tests/Attributes.
"""
import glob
import itertools
import os
import random

from vtlmc import harness, refbase
from vtlmc import ref_c05 as R
from vtlmc.refbase import DS, ID, ME

ORDERS = ("equal", "permuted-later", "permuted-first")
KIND_PRIORITY = ["raw-error", "vtl-error", "missing-datapoint", "extra-datapoint", "wrong-value", "missing-column", "duplicate-identifiers"]


# ---------------------------------------------------------------------------------------------------------
# the space
# ---------------------------------------------------------------------------------------------------------

def universe(k, two_ids):
    if not two_ids:
        return [{"Id_1": i + 1} for i in range(k)]
    keys = [{"Id_1": 1, "Id_2": "a"}, {"Id_1": 1, "Id_2": "b"}, {"Id_1": 2, "Id_2": "a"}, {"Id_1": 2, "Id_2": "b"}]
    return keys[:k]


def canonical_comps(two_ids, packed=True):
    comps = [("C_id", "Integer", ID)] if packed else []
    comps += [("Id_1", "Integer", ID)] + ([("Id_2", "String", ID)] if two_ids else [])
    comps += [("Me_1", "Integer", ME)] + ([("Me_2", "String", ME)] if two_ids else [])
    return comps


def comps_for(order, j, two_ids, packed=True):
    """structure of operand j (1-based) under a component-order variant"""
    c = canonical_comps(two_ids, packed)
    if (order == "permuted-later" and j > 1) or (order == "permuted-first" and j == 1):
        return c[::-1]
    return c


def datapoint(j, ki, key, two_ids, cid=None):
    r = dict(key)
    if cid is not None:
        r["C_id"] = cid
    r["Me_1"] = 100 * j + ki + 1
    if two_ids:
        r["Me_2"] = "s%dk%d" % (j, ki + 1)
    return r


def packed_rows(k, m, two_ids):
    """-> {operand j: rows}, {C_id: tuple of key-index subsets per operand}"""
    keys = universe(k, two_ids)
    subsets = [tuple(i for i in range(k) if mask >> i & 1) for mask in range(2 ** k)]
    rows = {j: [] for j in range(1, m + 1)}
    slices = {}
    for cid, combo in enumerate(itertools.product(subsets, repeat=m)):
        slices[cid] = combo
        for j, sub in enumerate(combo, 1):
            for ki in sub:
                rows[j].append(datapoint(j, ki, keys[ki], two_ids, cid))
    return rows, slices


def programs(op, m):
    """-> [(form, expr over dataset names DS_1..DS_m)]"""
    ds = [("ds", "DS_%d" % j) for j in range(1, m + 1)]
    out = [("plain", (op, list(ds)))]
    out.append(("filter-last", (op, ds[:-1] + [("filter", ds[-1], ("Id_1", "<>", 1))])))
    out.append(("filter-first", (op, [("filter", ds[0], ("Me_1", ">", 101))] + ds[1:])))
    return out


def rename_datasets(expr, prefix):
    if expr[0] == "ds":
        return ("ds", prefix + expr[1][3:])
    if expr[0] == "filter":
        return ("filter", rename_datasets(expr[1], prefix), expr[2])
    return (expr[0], [rename_datasets(e, prefix) for e in expr[1]])


def space(tier):
    items = []
    shapes = [(2, 2, False), (2, 3, False), (2, 4, False), (3, 2, False)]
    if tier == "thorough":
        shapes += [(3, 3, False), (3, 4, False), (3, 2, True), (3, 3, True), (3, 4, True), (4, 2, True)]
    with_unpacked = set()
    for k, m, two in shapes:
        for op in R.SETOPS:
            if m > 2 and op in ("setdiff", "symdiff"):
                continue
            it = {"kind": "flat", "op": op, "m": m, "k": k, "two": two}
            if (op, m, two) not in with_unpacked:          # the unpacked shapes run once per (operator, operand count, structure)
                with_unpacked.add((op, m, two))
                it["unpacked"] = True
            items.append(it)
    for k, two in ([(2, False)] if tier == "quick" else [(2, False), (3, False), (3, True)]):
        for inner in R.SETOPS:
            items.append({"kind": "nested", "op": inner, "m": 3, "k": k, "two": two})
    return items


# ---------------------------------------------------------------------------------------------------------
# execution + verdict
# ---------------------------------------------------------------------------------------------------------

def error_kind(out):
    return "raw-error:%s" % out[2] if out[1] == "raw" else "vtl-error:%s" % (out[3] or out[2])


def shuffled(rows, seed):
    rows = list(rows)
    if seed:
        random.Random(seed).shuffle(rows)
    return rows


def run_statements(stmts, datasets, rec):
    """stmts: [(target, expr)] -> {target: rows | ('fatal', kind, text)}; one run, statement by statement if it fails"""
    script = "\n".join("%s <- %s;" % (t, R.render(e)) for t, e in stmts)
    out = refbase.run(script, datasets)
    rec.count("engine_runs")
    res = {}
    if out[0] == "ok":
        for t, _ in stmts:
            d = out[1].get(t)
            res[t] = ("fatal", "raw-error:NoResult", "%s missing from the result" % t) if d is None else (harness.dataset_rows(d) or [])
        return res
    if len(stmts) > 1:
        rec.count("batches_rerun_statement_by_statement")
    for t, e in stmts:
        if len(stmts) > 1:
            used = set(R.datasets_of(e))
            o = refbase.run("%s <- %s;" % (t, R.render(e)), [d for d in datasets if d.name in used])
            rec.count("engine_runs")
        else:
            o = out
        if o[0] == "ok" and o[1].get(t) is not None:
            res[t] = harness.dataset_rows(o[1][t]) or []
        elif o[0] == "ok":
            res[t] = ("fatal", "raw-error:NoResult", "%s missing from the result" % t)
        else:
            res[t] = ("fatal", error_kind(o), "%s: %s" % (o[2], o[4][:200]))
    return res


def operand_keys(expr, env, ids):
    """keys held by each operand of the top-level operator (after evaluating operand sub-expressions)"""
    return [set(R.key_of(r, ids) for r in R.evaluate(e, env, ids)) for e in expr[1]]


def classify(op, m, kind, key, present):
    """equivalence class of a failing datapoint in domain vocabulary: which operands hold its key"""
    where = [j + 1 for j, ks in enumerate(present) if key in ks]
    if op == "intersect" and m >= 3 and kind == "extra-datapoint" and 1 in where and 2 in where and len(where) < m:
        return "operand-beyond-2nd-ignored"
    if not where:
        return "key-in-no-operand"
    return "key-in-operand%s-%s" % ("s" if len(where) > 1 else "", "+".join(str(j) for j in where))


def judge(expr, env, ids, got):
    """-> (expected rows, [(kind, key tuple, detail)])"""
    exp = R.evaluate(expr, env, ids)
    cols = [c for c in (exp[0].keys() if exp else []) if c not in ids]
    return exp, refbase.compare(got, exp, ids, cols or None)


def count_class(m):
    return "operands=2" if m == 2 else "operands>=3"


def presence_class(combo, k):
    """abstraction of a slice: the multiset over the keys of 'set of operands holding the key'"""
    return tuple(sorted("".join("1" if ki in sub else "0" for sub in combo) for ki in range(k)))


def replay_data(expr, datasets, ids, packed):
    used = set(R.datasets_of(expr))
    return {"expr": expr, "ids": ids, "packed": packed,
            "datasets": [{"name": d.name, "comps": [list(c) for c in d.comps], "rows": d.rows} for d in datasets if d.name in used]}


def still_fails(expr, datasets, ids):
    """the single statement alone on the given datasets (also the body of Check.replay) -> list of diffs / fatal"""
    used = set(R.datasets_of(expr))
    dss = [d for d in datasets if d.name in used]
    out = refbase.run("DS_r <- %s;" % R.render(expr), dss)
    if out[0] != "ok" or out[1].get("DS_r") is None:
        return [("raw-error", (), out[1:] if out[0] != "ok" else "no result")]
    env = {d.name: d.rows for d in dss}
    return judge(expr, env, ids, harness.dataset_rows(out[1]["DS_r"]) or [])[1]


def describe(ids, diffs):
    kind, key, detail = diffs[0]
    if kind == "wrong-value":
        return "at %s: %s = %r, expected %r" % (dict(zip(ids, key)), detail[0], detail[1], detail[2])
    return "%s %s %r" % (kind, dict(zip(ids, key)), detail)


def compact(d):
    return "%s%r = %r" % (d.name, [c[0] for c in d.comps], [tuple(r[c[0]] for c in d.comps) for r in d.rows])


PREFIX = {"equal": "E", "permuted-later": "L", "permuted-first": "F"}


def kind_rank(kind):
    head = kind.split(":")[0]
    return KIND_PRIORITY.index(head) if head in KIND_PRIORITY else 99


def judge_statement(e, got, env, ids, slices, dss):
    """-> (expected rows, {(class, kind): entry}, {slice id: kind of its first difference});
    entry = the smallest failing input of the class: dict(sid, expr, text, rank, dss, ids)"""
    exp = R.evaluate(e, env, ids)
    sig, bad = {}, {}
    if isinstance(got, tuple):
        sig[("any-input", got[1])] = {"sid": None, "expr": e, "text": got[2], "rank": (0, 0), "dss": dss, "ids": ids}
        return exp, sig, None
    cols = [c for c in (exp[0].keys() if exp else []) if c not in ids]
    diffs = refbase.compare(got, exp, ids, cols or None)
    present = operand_keys(e, env, ids)
    cid_at = ids.index("C_id") if slices is not None else None
    for kind, key, detail in diffs:
        sid = None
        if slices is not None and isinstance(key[cid_at], int) and not isinstance(key[cid_at], bool) and key[cid_at] in slices:
            sid = key[cid_at]
        cls = classify(e[0], len(e[1]), kind, key, present)
        bad.setdefault(sid, kind)
        rank = (sum(len(x) for x in slices[sid]), sid) if sid is not None else (10 ** 6, -1)
        prev = sig.get((cls, kind))
        if prev is None or rank < prev["rank"]:
            sig[(cls, kind)] = {"sid": sid, "expr": e, "text": describe(ids, [(kind, key, detail)]), "rank": rank, "dss": dss, "ids": ids}
    return exp, sig, bad


def emit(fkey, entry, rec):
    e, dss, ids, sid = entry["expr"], entry["dss"], entry["ids"], entry["sid"]
    where = None
    if sid is not None:                                    # minimise: the failing C_id slice alone
        alone = [DS(d.name, d.comps, [r for r in d.rows if r["C_id"] == sid]) for d in dss]
        rec.count("engine_runs")
        if still_fails(e, alone, ids):
            dss = alone
        else:
            where = "the packed input (C_id slice %s; the slice alone does not fail)" % sid
    used = set(R.datasets_of(e))
    if where is None:
        where = "; ".join(compact(d) for d in dss if d.name in used) if sum(len(d.rows) for d in dss if d.name in used) <= 24 else "the packed input"
    rec.violation(fkey, "DS_r <- %s; on %s -> %s" % (R.render(e), where, entry["text"]), replay_data(e, dss, ids, sid is not None))


def packed_inputs(item, m):
    rows, slices = packed_rows(item["k"], m, item["two"])
    by_order = {}
    for o in ORDERS:
        by_order[o] = [DS("%s_%d" % (PREFIX[o], j), comps_for(o, j, item["two"]), shuffled(rows[j], item["seed"] * 10 + j if item["seed"] else 0))
                       for j in range(1, m + 1)]
    return slices, by_order


def record_cases(item, form, o, e, exp, got, bad, slices, rec):
    k, m = item["k"], len(next(iter(slices.values())))
    nonempty = set(r["C_id"] for r in exp)
    agg = {}
    for sid, combo in slices.items():
        outcome = got[1] if isinstance(got, tuple) else bad.get(sid, "ok")
        collided = any(sum(1 for sub in combo if ki in sub) >= 2 for ki in range(k))
        ck = ((item["op"], m, form, o, "two-ids" if item["two"] else "one-id", presence_class(combo, k)), outcome, collided or sid in nonempty)
        agg[ck] = agg.get(ck, 0) + 1
    if bad and None in bad:
        rec.case((item["op"], m, form, o, "datapoints-outside-every-slice"), bad[None], nontrivial=True)
    for (ck, outcome, nt), n in agg.items():
        rec.case(ck, outcome, nontrivial=nt, n=n,
                 sample={"script": "DS_r <- %s;" % R.render(e), "operands_holding_each_key": list(ck[-1]), "outcome": outcome} if nt and outcome == "ok" else None)


def work(item, rec):
    harness.boot()
    if item["kind"] == "flat":
        work_flat(item, rec)
    else:
        work_nested(item, rec)


def work_flat(item, rec):
    op, m, two = item["op"], item["m"], item["two"]
    slices, by_order = packed_inputs(item, m)
    ids = [c[0] for c in canonical_comps(two) if c[2] == ID]
    datasets = [d for o in ORDERS for d in by_order[o]]
    stmts, meta = [], {}
    for o in ORDERS:
        for form, expr in programs(op, m):
            t = "R_%s_%d" % (PREFIX[o], len(stmts))
            stmts.append((t, rename_datasets(expr, PREFIX[o] + "_")))
            meta[t] = (form, o)
    results = run_statements(stmts, datasets, rec)
    env = {d.name: d.rows for d in datasets}
    failing = {}
    for t, e in stmts:
        form, o = meta[t]
        exp, sig, bad = judge_statement(e, results[t], env, ids, slices, by_order[o])
        failing[(form, o)] = sig
        record_cases(item, form, o, e, exp, results[t], bad, slices, rec)
    if item.get("unpacked"):
        failing.update(run_unpacked(item, rec))
    report_flat(item, failing, rec)


def run_unpacked(item, rec):
    """every operand wholly empty or full, no C_id: 2^m combinations x component orders, one script"""
    op, m, two = item["op"], item["m"], item["two"]
    k = 3
    keys = universe(k, two)
    ids = [c[0] for c in canonical_comps(two, packed=False) if c[2] == ID]
    datasets, stmts, meta = [], [], {}
    for o in ORDERS:
        for j in range(1, m + 1):
            comps = comps_for(o, j, two, packed=False)
            datasets.append(DS("%s_e%d" % (PREFIX[o], j), comps, []))
            datasets.append(DS("%s_f%d" % (PREFIX[o], j), comps, [datapoint(j, ki, keys[ki], two) for ki in range(k)]))
        for combo in itertools.product("ef", repeat=m):
            t = "R_%s_%s" % (PREFIX[o], "".join(combo))
            stmts.append((t, (op, [("ds", "%s_%s%d" % (PREFIX[o], c, j)) for j, c in enumerate(combo, 1)])))
            meta[t] = (o, combo)
    results = run_statements(stmts, datasets, rec)
    env = {d.name: d.rows for d in datasets}
    failing = {}
    for t, e in stmts:
        o, combo = meta[t]
        exp, sig, bad = judge_statement(e, results[t], env, ids, None, datasets)
        shape = "some-operand-empty" if "e" in combo else "all-operands-full"
        failing.setdefault(("unpacked/" + shape, o), {})
        for ck, entry in sig.items():
            failing[("unpacked/" + shape, o)].setdefault(ck, entry)
        outcome = results[t][1] if isinstance(results[t], tuple) else (bad[None] if bad else "ok")
        rec.case((op, m, "unpacked", o, "two-ids" if two else "one-id", "operands-" + "".join(combo).upper()), outcome, nontrivial="f" in combo)
    return failing


def report_flat(item, failing, rec):
    """a finding is reported for the simplest statement that shows it (one root cause = one key): plain form with equal
    component order first (one key per class of failing key), then the other forms / orders / unpacked shapes, where only
    what the simpler statements do not show is reported, under one key per variant"""
    op, mc = item["op"], count_class(item["m"])
    seen = set()
    base = failing.get(("plain", "equal"), {})
    forms = ["plain", "filter-last", "filter-first", "unpacked/some-operand-empty", "unpacked/all-operands-full"]
    for o in ORDERS:
        order_specific = [ck for ck in failing.get(("plain", o), {}) if ck not in base] if o != "equal" else []
        for form in forms:
            sig = failing.get((form, o), {})
            new = {ck: v for ck, v in sig.items() if ck not in seen}
            if not new:
                continue
            if form == "plain" and o == "equal":
                for (cls, kind), entry in sorted(new.items()):
                    emit("C05:%s:%s:%s:%s" % (op, mc, cls, kind), entry, rec)
            elif form != "plain" and order_specific:
                rec.count("variant_failures_explained_by_the_plain_form", len(new))
            else:
                parts = ([form] if form != "plain" else []) + (["permuted-component-order"] if o != "equal" else [])
                first = sorted(new, key=lambda ck: (kind_rank(ck[1]), ck))[0]
                fkey = "C05:%s:%s:%s:%s" % (op, mc, "+".join(parts), first[1])
                if fkey not in seen:
                    emit(fkey, new[first], rec)
                    seen.add(fkey)
            seen.update(new)


def work_nested(item, rec):
    """item['op'] is the INNER operator: outer(inner(DS_1, DS_2), DS_3) and outer(DS_1, inner(DS_2, DS_3)) for every outer"""
    inner, two = item["op"], item["two"]
    slices, by_order = packed_inputs(item, 3)
    ids = [c[0] for c in canonical_comps(two) if c[2] == ID]
    datasets = [d for o in ORDERS for d in by_order[o]]
    a, b, c = ("ds", "DS_1"), ("ds", "DS_2"), ("ds", "DS_3")
    stmts, meta = [], {}
    for o in ORDERS:
        for outer in R.SETOPS:
            for side, expr in (("left", (outer, [(inner, [a, b]), c])), ("right", (outer, [a, (inner, [b, c])]))):
                t = "R_%s_%d" % (PREFIX[o], len(stmts))
                stmts.append((t, rename_datasets(expr, PREFIX[o] + "_")))
                meta[t] = (("nested", outer, side), o)
        # the two-operand operators alone on the same structures: a composite is blamed only if its constituents hold alone
        for cop in R.SETOPS:
            for x, y in ((1, 2), (2, 3), (1, 3)):
                t = "Q_%s_%s_%d%d" % (PREFIX[o], cop, x, y)
                stmts.append((t, (cop, [("ds", "%s_%d" % (PREFIX[o], x)), ("ds", "%s_%d" % (PREFIX[o], y))])))
                meta[t] = (("constituent", cop), o)
    results = run_statements(stmts, datasets, rec)
    env = {d.name: d.rows for d in datasets}
    failing, alone_fails = {}, set()
    for t, e in stmts:
        form, o = meta[t]
        exp, sig, bad = judge_statement(e, results[t], env, ids, slices, by_order[o])
        if form[0] == "constituent":
            if sig:
                alone_fails.add((form[1], o))
            continue
        failing[(form, o)] = sig
        sub = dict(item, op=form[1])
        record_cases(sub, "nested-%s-%s" % (form[2], inner), o, e, exp, results[t], bad, slices, rec)
    seen = set()
    for o in ORDERS:
        suffix = "+permuted-component-order" if o != "equal" else ""
        by_kind = {}
        for (form, oo), sig in failing.items():
            if oo != o or not sig:
                continue
            if (inner, o) in alone_fails or (form[1], o) in alone_fails:
                rec.count("composite_failures_explained_by_a_constituent", len(sig))
                continue
            for (cls, kind), entry in sig.items():
                by_kind.setdefault(kind, {}).setdefault(form, entry)
        for kind in sorted(by_kind, key=kind_rank):
            outers = sorted(set(f[1] for f in by_kind[kind]))
            if len(outers) >= 2:
                fkey = "C05:%s:operands=2:as-operand-of-another-set-operator%s:%s" % (inner, suffix, kind)
                todo = [(fkey, by_kind[kind][sorted(by_kind[kind])[0]])]
            else:
                todo = [("C05:%s:operands=2:nested-%s-%s%s:%s" % (f[1], f[2], inner, suffix, kind), by_kind[kind][f]) for f in sorted(by_kind[kind])]
            for fkey, entry in todo:
                if fkey not in seen:
                    seen.add(fkey)
                    emit(fkey, entry, rec)


# ---------------------------------------------------------------------------------------------------------
# calibration gate
# ---------------------------------------------------------------------------------------------------------

RM_NUMBERS = {126, 127, 128, 129, 130, 131}
CORPUS_DIRS = ("Additional", "Bugs", "Attributes")


def stored_cases():
    """(label, script, [input DS], {name: expected DS}) for the stored cases whose script mentions a set operator"""
    for n, script, ins, outs in refbase.reference_manual_cases(RM_NUMBERS):
        yield "RM%d" % n, script, ins, outs
    for d in CORPUS_DIRS:
        base = os.path.join(harness.REPO, "tests", d, "data")
        for vtl in sorted(glob.glob(os.path.join(base, "vtl", "*.vtl"))):
            with open(vtl, encoding="utf-8") as f:
                script = f.read()
            if not any(op + "(" in script.replace(" ", "") for op in R.SETOPS):
                continue
            code = os.path.basename(vtl)[:-4]
            ins, outs = [], {}
            try:
                for sp in sorted(glob.glob(os.path.join(base, "DataStructure", "input", code + "-*.json"))):
                    tag = os.path.basename(sp)[:-5]
                    for x in refbase._load_ds(sp, os.path.join(base, "DataSet", "input", tag + ".csv")):
                        ins.append(refbase.typed(x))
                for sp in sorted(glob.glob(os.path.join(base, "DataStructure", "output", code + "-*.json"))):
                    tag = os.path.basename(sp)[:-5]
                    if not os.path.exists(os.path.join(base, "DataSet", "output", tag + ".csv")):
                        continue
                    for x in refbase._load_ds(sp, os.path.join(base, "DataSet", "output", tag + ".csv")):
                        outs[x.name] = refbase.typed(x)
            except Exception as e:  # noqa: BLE001  (unreadable stored file: the case is outside the corpus)
                yield "tests/%s/%s" % (d, code), None, [], {"error": str(e)}
                continue
            yield "tests/%s/%s" % (d, code), script, ins, outs


def calibrate_case(script, ins, outs):
    """-> ('ok', n) | ('outside', why) | ('wrong', diffs)"""
    if script is None or not outs or not ins:
        return "outside", "no stored input / expected output (error case)"
    try:
        stmts = R.parse_script(script)
    except R.Outside as e:
        return "outside", str(e)
    by = {d.name: d for d in ins}
    # a nullable component without a column in the stored CSV is null everywhere
    env = {d.name: [{c: r.get(c) for c in d.names()} for r in d.rows] for d in ins}
    for target, expr in stmts:
        names = R.datasets_of(expr)
        if target not in outs or any(n not in by for n in names):
            return "outside", "operand or expected result not stored"
        first = by[names[0]]
        ids = first.ids()
        if any(sorted(by[n].ids()) != sorted(ids) or sorted(by[n].names()) != sorted(first.names()) for n in names):
            return "outside", "operands are not structurally equal"
        if any(r.get(i) is None for n in names for r in by[n].rows for i in ids):
            return "outside", "null identifier"
        try:
            exp = R.evaluate(expr, env, ids)
        except R.Outside as e:
            return "outside", str(e)
        stored = outs[target]
        cols = [c for c in stored.names() if c not in ids]
        diffs = refbase.compare(exp, [{c: r.get(c) for c in stored.names()} for r in stored.rows], ids, cols, rel=1e-5)
        if diffs:
            return "wrong", diffs[:3]
        env[target] = exp
        by[target] = DS(target, first.comps, exp)
    return "ok", len(stmts)


def calibrate():
    ok, wrong, skipped = [], [], []
    for label, script, ins, outs in stored_cases():
        verdict, info = calibrate_case(script, ins, outs)
        if verdict == "ok":
            ok.append(label)
        elif verdict == "wrong":
            wrong.append((label, info))
        else:
            skipped.append((label, info))
    return ok, wrong, skipped


# ---------------------------------------------------------------------------------------------------------

class Check:
    ID = "C05"
    LEVEL = "exploration"
    RULE = ("case = one set expression (operator x operand count x operand form x component-order variant) x one input "
            "case (C_id slice of the packed input = one choice of a key subset per operand, or one unpacked empty/full "
            "combination), compared with the set algebra of the property statement; distinct = (operator, operand count, "
            "form, component-order variant, identifier/measure configuration, multiset over the keys of 'which operands "
            "hold the key'); non-trivial = some key is held by at least two operands or the expected result of the slice "
            "is not empty")
    ASSUMPTIONS = [
        "datapoints are matched on the identifier components only; operands have equal identifier and measure names "
        "(component order may differ); identifiers are never null; no operand holds a key twice",
        "setdiff and symdiff take exactly two operands (the grammar rejects more); union / intersect with one operand are "
        "rejected by the grammar and not explored",
        "operand sub-expressions are limited to filter on a comparison with a constant and nested set operators",
        "a failing composite (nested) expression is only reported when its inner and its outer operator both hold alone on "
        "the same datasets and component-order variant (one root cause = one key)",
        "only datapoints are compared; result component order, types and roles are C10's business",
    ]

    def run(self, tier, seed, rec):
        harness.boot()
        ok, wrong, skipped = calibrate()
        rec.count("calibration_outside_subset", len(skipped))
        rec.note("calibration: reproduced %s" % ", ".join(x.split("/")[-1] for x in ok))
        rec.note("calibration: outside the modelled subset (not modelled): " + ", ".join("%s (%s)" % (a.split("/")[-1], b) for a, b in skipped))
        if wrong:
            for label, info in wrong:
                rec.tool_error("oracle not calibrated: reference evaluator disagrees with the stored expectation of %s: %s" % (label, info))
            return {"exhaustive": False, "traces_validated_against_impl": len(ok)}
        if not all(("RM%d" % n) in ok for n in RM_NUMBERS) or len(ok) < 12:
            rec.tool_error("calibration corpus too small: %d cases reproduced (%s)" % (len(ok), ok))
            return {"exhaustive": False, "traces_validated_against_impl": len(ok)}
        items = space(tier)
        for it in items:
            it["seed"] = seed
        items = harness.seeded_order(items, seed)
        # big items first (wall time), order is irrelevant for the verdict
        items.sort(key=lambda it: -((2 ** it["k"]) ** it["m"]))
        harness.pmap(work, items, rec)
        rec.violations.sort(key=lambda v: (v["key"], sum(len(d["rows"]) for d in v["replay"]["datasets"]), v["what"]))
        ops = set(k[0] for k in rec.keys)
        missing = [o for o in R.SETOPS if o not in ops]
        if missing:
            rec.tool_error("operators never exercised non-trivially: %s" % missing)
        return {"exhaustive": True, "traces_validated_against_impl": len(ok), "work_items": len(items),
                "calibration_cases_outside_subset": len(skipped),
                "input_cases_per_shape": {"k=%d,m=%d" % (k, m): (2 ** k) ** m for k, m in sorted(set((i["k"], i["m"]) for i in items))}}

    def replay(self, data):
        harness.boot()

        def tup(e):
            if e[0] == "ds":
                return ("ds", e[1])
            if e[0] == "filter":
                return ("filter", tup(e[1]), tuple(e[2]))
            return (e[0], [tup(x) for x in e[1]])
        dss = [DS(d["name"], [tuple(c) for c in d["comps"]], d["rows"]) for d in data["datasets"]]
        return bool(still_fails(tup(data["expr"]), dss, data["ids"]))

"""C01 — element-wise operators compute VTL values over matched datapoints (explorer E1, oracle O4).

Programs are generated type-directed from the operator alphabet of ``vtlmc/ref_c01.py`` at three operand levels
(component inside ``calc``, dataset, scalar); inputs are complete: truth tables (cartesian product of the leaf
domains) at component / scalar level, all key-presence / value relations over a two-key universe at dataset level
(packed through ``C_id``).  Every execution goes through the public ``run()`` and is compared with the reference
evaluator, which is first calibrated on the Reference-Manual examples stored in the repository.
"""
import itertools
import os

from vtlmc import harness, refbase
from vtlmc import ref_c01 as R
from vtlmc.refbase import DS, ID, ME
from vtlmc.ref_c01 import ANY, ERR, INT, NUM, BOOL, STR

DEFAULT_NAMES = ("int_var", "num_var", "bool_var", "string_var")
RM_TOLERANCE = 1e-5     # stored expectations are rounded to 6 decimals
RM_EXCLUDED = {27: "multi-measure instr: the repository's own test expects an error", 31: "multi-measure length: idem"}


# ---------------------------------------------------------------------------------------------------------
# comparing engine output with the outcomes the reference allows
# ---------------------------------------------------------------------------------------------------------

def cv(v):
    return harness.canon_value(v)


def matches(got, alts, rel=1e-9):
    if ANY in alts:
        return True
    for a in alts:
        if a is ERR:
            continue
        if isinstance(got, str) != isinstance(a, str) and got is not None and a is not None:
            continue
        if refbase.val_eq(cv(got), cv(a), rel):
            return True
    return False


def resolve(dv, got_rows, rel=1e-9):
    """expected rows of a DVal, choosing for every cell the allowed outcome the engine produced (if any)"""
    gmap = {}
    for r in got_rows:
        gmap[tuple(cv(r.get(i)) for i in dv.ids)] = r
    out = []
    for key, cells in dv.rows.items():
        ck = tuple(cv(k) for k in key)
        g = gmap.get(ck)
        if g is None and key in dv.optional:
            continue
        if g is None and any(ANY in cells[m] or ERR in cells[m] for m in dv.meas):
            continue
        row = dict(zip(dv.ids, key))
        for m in dv.meas:
            alts = cells[m]
            vals = [a for a in alts if a is not ERR and a is not ANY]
            if g is not None and m in g and matches(g[m], alts, rel):
                row[m] = g[m]
            else:
                row[m] = vals[0] if vals else None
        out.append(row)
    return out


def must_raise(dv):
    return any(cells[m] == [ERR] for cells in dv.rows.values() for m in dv.meas)


def may_raise(dv):
    return any((ERR in cells[m] or ANY in cells[m]) for cells in dv.rows.values() for m in dv.meas)


def diff_dataset(dv, got_rows, rel=1e-9):
    exp = resolve(dv, got_rows, rel)
    return refbase.compare(got_rows, exp, dv.ids, cols=dv.meas, rel=rel)


# ---------------------------------------------------------------------------------------------------------
# calibration gate
# ---------------------------------------------------------------------------------------------------------

def calibrate():
    """-> (number of Reference-Manual examples reproduced, problems, operators seen, skipped)"""
    ok, problems, seen, skipped = 0, [], set(), {}
    for num, script, ins, outs in refbase.reference_manual_cases():
        if num in RM_EXCLUDED:
            skipped[num] = RM_EXCLUDED[num]
            continue
        try:
            name, e = R.parse_statement(script)
            ops = R.operators_of(e)
            if not ops:
                continue
            dv = R.eval_ds(e, {"datasets": {d.name: d for d in ins}})
        except R.NotInSubset as ex:
            skipped[num] = str(ex)
            continue
        except Exception as ex:  # noqa: BLE001
            problems.append("RM%03d: reference evaluator crashed: %r" % (num, ex))
            continue
        if name not in outs or not isinstance(dv, R.DVal):
            problems.append("RM%03d: no stored expectation for %s" % (num, name))
            continue
        exp = outs[name]
        exp_meas = exp.measures()
        if sorted(exp_meas) != sorted(dv.meas) or sorted(exp.ids()) != sorted(dv.ids):
            problems.append("RM%03d: structure %s/%s, stored %s/%s" % (num, dv.ids, dv.meas, exp.ids(), exp_meas))
            continue
        if must_raise(dv):
            problems.append("RM%03d: reference predicts an error" % num)
            continue
        diffs = diff_dataset(dv, exp.rows, RM_TOLERANCE)
        compared = sum(1 for cells in dv.rows.values() for m in dv.meas if ANY not in cells[m])
        if diffs:
            problems.append("RM%03d (%s): reference differs from the stored expectation: %s" % (num, script.strip()[:60], diffs[:3]))
        elif compared:
            ok += 1
            seen |= ops
        else:
            skipped[num] = "only unmodelled points"
    return ok, problems, seen, skipped


# ---------------------------------------------------------------------------------------------------------
# executing one statement on given inputs and judging it
# ---------------------------------------------------------------------------------------------------------

def to_json(e):
    if isinstance(e, tuple):
        return [to_json(x) for x in e]
    return e


def from_json(e):
    if isinstance(e, list):
        return tuple(from_json(x) for x in e)
    return e


def ds_to_json(d):
    return {"name": d.name, "comps": [list(c) for c in d.comps], "rows": [[r.get(c[0]) for c in d.comps] for r in d.rows]}


def ds_from_json(j):
    names = [c[0] for c in j["comps"]]
    return DS(j["name"], [tuple(c) for c in j["comps"]], [dict(zip(names, r)) for r in j["rows"]])


def statement(e, scalar=False):
    return "%s <- %s;" % ("x" if scalar else "DS_r", R.render(e))


def physical(dss, seed):
    """VERIF_SEED permutes the physical row order of the inputs (never the inputs)"""
    if not seed:
        return dss
    return [DS(d.name, d.comps, harness.seeded_order(d.rows, seed)) for d in dss]


def reference(e, dss, scalars):
    env = {"datasets": {d.name: d for d in dss}, "scalars": {n: v for n, (_, v) in (scalars or {}).items()}}
    return R.eval_ds(e, env)


def verdict(dv, out, resname):
    """compare one engine outcome (harness.call tuple) with the reference -> deviations (kind, key or None, detail)"""
    devs = []
    is_scalar = not isinstance(dv, R.DVal)
    if is_scalar:
        must, may_err, may_any = dv == [ERR], ERR in dv, ANY in dv
    else:
        cells = [c[m] for c in dv.rows.values() for m in dv.meas]
        must, may_err, may_any = any(c == [ERR] for c in cells), any(ERR in c for c in cells), any(ANY in c for c in cells)
    if out[0] == "err":
        if out[1] != "vtl":
            if may_any and not must:
                devs.append(("~raw-error-at-unmodelled-point:%s" % out[2], None, out[4][:160]))
            else:
                devs.append(("raw-error:%s" % out[2], None, out[4][:160]))
        elif not (must or may_err or may_any):
            devs.append(("vtl-error:%s" % out[3], None, out[4][:160]))
        return devs
    if must:
        devs.append(("no-error", None, "a result was returned"))
        return devs
    res = out[1].get(resname)
    if res is None:
        devs.append(("missing-result", None, "no result named %s" % resname))
        return devs
    if is_scalar:
        val = getattr(res, "value", None)
        if not matches(val, dv):
            devs.append(("wrong-value", None, ("x", cv(val), [a for a in dv if a is not ERR])))
        return devs
    got = harness.dataset_rows(res) or []
    if len(dv.meas) == 1 and dv.meas[0] not in ("bool_var", "int_var") and got:
        # a mono-measure operator that changes the type of the measure may rename it to the default variable of the
        # new type (User Manual); the value is what C01 is about
        other = [c for c in got[0] if c not in dv.ids]
        if len(other) == 1 and other[0] in DEFAULT_NAMES and other[0] != dv.meas[0]:
            got = [dict([(k, v) if k != other[0] else (dv.meas[0], v) for k, v in r.items()]) for r in got]
    for d in diff_dataset(dv, got):
        if d[0] == "wrong-value":
            c, g, _ = d[2]
            alts = None
            for key, cells_ in dv.rows.items():
                if tuple(cv(k) for k in key) == d[1]:
                    alts = [a for a in cells_[c] if a is not ERR]
            devs.append(("wrong-value", d[1], (c, g, alts)))
        else:
            devs.append((d[0], d[1], d[2]))
    return devs


def judge(e, dss, scalars, seed=0):
    """run 'DS_r <- e' alone and compare with the reference -> (deviations, dv, engine outcome)"""
    dv = reference(e, dss, scalars)
    is_scalar = not isinstance(dv, R.DVal)
    out = refbase.run(statement(e, is_scalar), physical(dss, seed), scalars or None)
    return verdict(dv, out, "x" if is_scalar else "DS_r"), dv, out


def real(devs):
    return [d for d in devs if not d[0].startswith("~")]


def filter_case(dss, col, values):
    vs = set(values)
    return [DS(d.name, d.comps, [r for r in d.rows if r.get(col) in vs]) if col in d.names() else d for d in dss]


def vclass(v):
    if v is None:
        return "null"
    if isinstance(v, bool):
        return "true" if v else "false"
    if isinstance(v, (int, float)):
        return "zero" if v == 0 else ("neg" if v < 0 else "pos")
    if isinstance(v, str):
        if any(ord(ch) > 127 for ch in v):
            return "str-non-ascii"
        if v != v.strip():
            return "str-padded"
        return "str"
    return "other"


def input_class(dss, key_by_name, scalars=None):
    """equivalence class of the inputs of one result datapoint, in domain vocabulary"""
    parts = []
    for d in dss:
        ids = [i for i in d.ids() if i in key_by_name]
        hit = [r for r in d.rows if all(cv(r.get(i)) == cv(key_by_name[i]) for i in ids)]
        if not d.rows:
            parts.append("%s=empty" % d.name)
        elif not hit:
            parts.append("%s=absent" % d.name)
        else:
            mt = {c[0]: c[1] for c in d.comps}
            for m in d.measures():
                parts.append("%s%s:%s=%s" % ("" if len(dss) == 1 else d.name + ".", m, mt[m], vclass(hit[0].get(m))))
    for n, (_, v) in sorted((scalars or {}).items()):
        parts.append("%s=%s" % (n, vclass(v)))
    return ",".join(parts)


def null_pattern(dss, key_by_name):
    s = ""
    for d in dss:
        ids = [i for i in d.ids() if i in key_by_name]
        hit = [r for r in d.rows if all(r.get(i) == key_by_name[i] for i in ids)]
        if not hit:
            s += "a"
        else:
            s += "".join("n" if hit[0].get(m) is None else "v" for m in d.measures())
        s += "|"
    return s


def children(e):
    """proper sub-statements of a statement (for counterexample minimisation)"""
    if e[0] == "calc":
        (name, x), = e[2]
        return [("calc", e[1], ((name, a),)) for a in x[2] if a[0] == "op"] if x[0] == "op" else []
    if e[0] == "op":
        return [a for a in e[2] if a[0] == "op"]
    return []


def top_operator(e):
    x = e
    if e[0] == "calc":
        x = e[2][0][1]
    if x[0] != "op":
        return "?"
    inner = [a[1] for a in x[2] if a[0] == "op"]
    return x[1] if not inner else "%s(%s)" % (x[1], ",".join(sorted(set(inner))))


def minimise(e, dss, scalars, devs, budget=12):
    """smallest failing sub-statement on the same (already reduced) inputs"""
    cur = (e, devs)
    while budget > 0:
        for ch in children(cur[0]):
            budget -= 1
            try:
                d2, _, _ = judge(ch, dss, scalars)
            except R.NotInSubset:
                continue
            if real(d2):
                cur = (ch, real(d2))
                break
        else:
            break
    return cur


def first_dev(devs):
    return sorted(real(devs), key=lambda d: (d[0], repr(d[1])))[0]


def try_judge(e, dss, scalars):
    try:
        return real(judge(e, dss, scalars)[0])
    except R.NotInSubset:
        return []


def leaf_classes(e):
    out = []

    def walk(x):
        if x[0] == "lit":
            out.append(vclass(x[2]))
        elif x[0] == "op":
            for a in x[2]:
                walk(a)
    walk(e)
    return out


def report(rec, level, e, dss, scalars, devs, case_col=None, shape=None):
    """one violation candidate per failing run: reduced to one case, minimised, keyed in domain vocabulary"""
    dev = first_dev(devs)
    rd, independent = dss, False
    if dev[1] is None and dss and any(d.rows for d in dss):
        empty = [DS(d.name, d.comps, []) for d in dss]
        d0 = try_judge(e, empty, scalars)
        if any(x[0] == dev[0] for x in d0):
            rd, devs, independent = empty, d0, True        # fails whatever the data
    if not independent and case_col is not None:
        cases = sorted({r.get(case_col) for d in dss if case_col in d.names() for r in d.rows}, key=repr)
        if dev[1] is not None:
            dvids = R.eval_ds(e, {"datasets": {d.name: d for d in dss}, "scalars": {n: v for n, (_, v) in (scalars or {}).items()}}).ids
            cases = [c for c in cases if cv(c) == dev[1][dvids.index(case_col)]]
        steps = 0
        while len(cases) > 1 and steps < 14:       # bisect the cases down to one that still fails the same way
            steps += 1
            half, rest = cases[:len(cases) // 2], cases[len(cases) // 2:]
            if any(x[0] == dev[0] for x in try_judge(e, filter_case(dss, case_col, half), scalars)):
                cases = half
            elif any(x[0] == dev[0] for x in try_judge(e, filter_case(dss, case_col, rest), scalars)):
                cases = rest
            else:
                break
        if len(cases) == 1:
            rd2 = filter_case(dss, case_col, cases)
            d2 = try_judge(e, rd2, scalars)
            if d2:
                rd, devs = rd2, d2
    e2, devs2 = minimise(e, rd, scalars, real(devs))
    dev2 = first_dev(devs2)
    opn = top_operator(e2)
    if independent:
        cls = "any-input"
    else:
        key_by_name = {}
        if dev2[1] is not None:
            dv = R.eval_ds(e2, {"datasets": {d.name: d for d in rd}, "scalars": {n: v for n, (_, v) in (scalars or {}).items()}})
            key_by_name = dict(zip(dv.ids, dev2[1]))
        if level == "scalar":
            cls = ",".join(leaf_classes(e2) + ["%s" % vclass(v) for _, (_, v) in sorted((scalars or {}).items())]) or "-"
        else:
            cls = input_class(rd, key_by_name, scalars)
    meta = {"op": opn, "level": level, "cls": cls, "dev": dev2[0], "shape": shape}
    what = "%s on %s%s: %s" % (statement(e2, level == "scalar"), "; ".join(
        "%s%s=%s" % (d.name, [c[0] for c in d.comps], [[r.get(c[0]) for c in d.comps] for r in d.rows][:6]) for d in rd),
        (" scalars %s" % {n: v for n, (_, v) in scalars.items()}) if scalars else "", describe(dev2))
    rec.violation("C01:%s:%s:%s:%s" % (opn, level, cls, dev2[0]), what,
                  {"level": level, "expr": to_json(e2), "datasets": [ds_to_json(d) for d in rd],
                   "scalars": {n: list(v) for n, v in (scalars or {}).items()}, "meta": meta})


def describe(dev):
    kind, key, detail = dev
    if kind == "wrong-value":
        return "%s=%r at %s, the manual gives %s" % (detail[0], detail[1], key, detail[2])
    if kind == "missing-datapoint":
        return "no datapoint %s, expected %s" % (key, detail)
    if kind == "extra-datapoint":
        return "datapoint %s %s that VTL does not define (no partner)" % (key, detail)
    if kind == "no-error":
        return "a result where VTL defines an error"
    return "%s (%s)" % (kind, detail)


# ---------------------------------------------------------------------------------------------------------
# the split executor: clean cases packed in one run, error cases isolated, unmodelled cases lenient
# ---------------------------------------------------------------------------------------------------------

def outcome_of(alts):
    if alts == [ERR]:
        return "error"
    if ANY in alts:
        return "any"
    vals = [a for a in alts if a is not ERR]
    if ERR in alts:
        return "value-or-error"
    return "null" if vals[0] is None else "value"


PENDING = []


class Req:
    """one statement to execute: kind clean (no error allowed) | must (must raise) | embedded | maybe (lenient)"""
    __slots__ = ("e", "dss", "scalars", "kind", "level", "case_col", "shape", "opkey")

    def __init__(self, e, dss, scalars, kind, level, case_col, shape, opkey):
        self.e, self.dss, self.scalars, self.kind = e, dss, scalars, kind
        self.level, self.case_col, self.shape, self.opkey = level, case_col, shape, opkey

    def weight(self):
        return 1 + sum(len(d.rows) for d in self.dss) // 400 + (3 if self.dss else 0)


def submit(e, dss, scalars, kind, level, case_col, shape, opkey):
    PENDING.append(Req(e, dss, scalars, kind, level, case_col, shape, opkey))


def run_split(rec, e, dss, scalars, case_col, opkey, level, types, seed, shape=None, isolate_cap=None):
    """record the cases of one packed statement and queue its runs: clean cases together, predicted-error cases alone
    (and inside the larger dataset), cases the manual leaves open together and leniently"""
    dv = reference(e, dss, scalars)
    ci = dv.ids.index(case_col)
    must, maybe, seen_cases = set(), set(), set()
    for key, cells in dv.rows.items():
        c = key[ci]
        ocs = [outcome_of(cells[m]) for m in dv.meas]
        if "error" in ocs:
            must.add(c)
        elif "any" in ocs or "value-or-error" in ocs:
            maybe.add(c)
        oc = "error" if "error" in ocs else ("any" if "any" in ocs else ocs[0])
        if key in dv.optional:
            oc = "optional"
        kb = dict(zip(dv.ids, key))
        sample = None
        if len(rec.samples) < 2 and oc in ("value", "error"):
            sample = {"statement": statement(e), "level": level, "datapoint": {k: cv(v) for k, v in kb.items()},
                      "inputs": input_class(dss, kb, scalars), "allowed_outcomes": {m: [repr(a) for a in cells[m]] for m in dv.meas}}
        rec.case((opkey, level, types, null_pattern(dss, kb), oc), oc, nontrivial=oc not in ("any", "optional"), sample=sample)
        seen_cases.add(c)
    all_cases = sorted({r.get(case_col) for d in dss if case_col in d.names() for r in d.rows}, key=repr)
    for c in all_cases:
        if c not in seen_cases:
            rec.case((opkey, level, types, "-", "absent"), "absent")
    maybe -= must
    clean = [c for c in all_cases if c not in must and c not in maybe]
    if clean or not all_cases:
        submit(e, filter_case(dss, case_col, clean) if (must or maybe) else dss, scalars, "clean", level, case_col, shape, opkey)
    if must:
        ordered = sorted(must, key=repr)
        for c in (ordered if isolate_cap is None else ordered[:isolate_cap]):
            submit(e, filter_case(dss, case_col, [c]), scalars, "must", level, case_col, shape, opkey)
        submit(e, filter_case(dss, case_col, clean + ordered), scalars, "embedded", level, case_col, shape, opkey)
    if maybe:
        submit(e, filter_case(dss, case_col, sorted(maybe, key=repr)), scalars, "maybe", level, case_col, shape, opkey)


def submit_one(rec, e, dss, scalars, level, shape, opkey, key):
    """one unpacked statement; the kind follows from the reference"""
    dv = reference(e, dss, scalars)
    if isinstance(dv, R.DVal):
        cells = [c[m] for c in dv.rows.values() for m in dv.meas]
        oc = "error" if any(c == [ERR] for c in cells) else ("any" if any(ANY in c or ERR in c for c in cells) else
                                                             ("rows" if dv.rows else "empty-result"))
    else:
        oc = outcome_of(dv)
    rec.case(key + (oc,), oc, nontrivial=oc != "any")
    submit(e, dss, scalars, {"error": "must", "any": "maybe", "value-or-error": "maybe"}.get(oc, "clean"), level, None, shape, opkey)


def rename(e, sfx):
    k = e[0]
    if k == "ds":
        return ("ds", e[1] + sfx)
    if k == "sc":
        return ("sc", e[1] + sfx, e[2])
    if k == "mem":
        return ("mem", rename(e[1], sfx), e[2])
    if k == "calc":
        return ("calc", rename(e[1], sfx), tuple((n, rename(x, sfx)) for n, x in e[2]))
    if k == "op":
        return ("op", e[1], tuple(rename(a, sfx) for a in e[2])) + tuple(e[3:])
    return e


def run_together(rec, reqs, seed):
    """several independent statements in one script (each on its own inputs) -> list of deviations per request;
    if the script as a whole raises it is split in halves until the raising statement is alone"""
    if len(reqs) == 1:
        r = reqs[0]
        rec.count("engine_runs")
        devs, _, _ = judge(r.e, r.dss, r.scalars, seed)
        return [devs]
    stmts, dss, scalars, dvs, names = [], [], {}, [], []
    for i, r in enumerate(reqs):
        sfx = "_%d" % i
        dv = reference(r.e, r.dss, r.scalars)
        is_scalar = not isinstance(dv, R.DVal)
        name = ("x" if is_scalar else "DS_r") + sfx
        stmts.append("%s <- %s;" % (name, R.render(rename(r.e, sfx))))
        dss.extend(DS(d.name + sfx, d.comps, d.rows) for d in r.dss)
        for n, v in (r.scalars or {}).items():
            scalars[n + sfx] = v
        dvs.append(dv)
        names.append(name)
    rec.count("engine_runs")
    out = refbase.run("\n".join(stmts), physical(dss, seed), scalars or None)
    if out[0] == "ok":
        return [verdict(dv, out, name) for dv, name in zip(dvs, names)]
    h = len(reqs) // 2
    return run_together(rec, reqs[:h], seed) + run_together(rec, reqs[h:], seed)


def flush(rec, seed):
    reqs, PENDING[:] = list(PENDING), []
    for kind in ("clean", "maybe"):
        group, w = [], 0
        todo = [r for r in reqs if r.kind == kind]
        packs = []
        for r in todo:
            if group and w + r.weight() > 40:
                packs.append(group)
                group, w = [], 0
            group.append(r)
            w += r.weight()
        if group:
            packs.append(group)
        for g in packs:
            for r, devs in zip(g, run_together(rec, g, seed)):
                note_soft(rec, devs, r.opkey)
                if real(devs):
                    report(rec, r.level, r.e, r.dss, r.scalars, devs, r.case_col, r.shape)
    for r in reqs:
        if r.kind in ("must", "embedded"):
            rec.count("engine_runs")
            devs, _, _ = judge(r.e, r.dss, r.scalars, seed)
            if real(devs):
                if r.kind == "must":
                    report(rec, r.level, r.e, r.dss, r.scalars, devs, r.case_col, r.shape)
                else:
                    report_embedded(rec, r.level, r.e, r.dss, r.scalars, devs, r.shape)


def note_soft(rec, devs, opkey):
    for d in devs:
        if d[0].startswith("~"):
            rec.count("raw_errors_at_unmodelled_points")
            rec.add("unmodelled_raw_error_ops", ["%s %s" % (opkey, d[0][1:])])


def report_embedded(rec, level, e, dss, scalars, devs, shape):
    dev = real(devs)[0]
    opn = top_operator(e)
    kind = dev[0] if dev[0] != "no-error" else "no-error"
    rec.violation("C01:%s:%s:%s:%s" % (opn, level, "error-row-inside-larger-dataset", kind),
                  "%s on %s: %s" % (statement(e), "; ".join("%s=%s" % (d.name, [[r.get(c[0]) for c in d.comps] for r in d.rows][:8]) for d in dss), describe(dev)),
                  {"level": level, "expr": to_json(e), "datasets": [ds_to_json(d) for d in dss],
                   "scalars": {n: list(v) for n, v in (scalars or {}).items()},
                   "meta": {"op": opn, "level": level, "cls": "error-row-inside-larger-dataset", "dev": kind, "shape": shape}})


# ---------------------------------------------------------------------------------------------------------
# program generation (type-directed)
# ---------------------------------------------------------------------------------------------------------

def variants(op):
    """well-typed instantiations of an operator: (operand types, result type, extra)"""
    out = []
    for argt, rt in R.sigs(op):
        if op in ("in", "not_in"):
            for s in R.SETS[argt[0]]:
                out.append((argt, rt, s))
        else:
            out.append((argt, rt, None))
    return out


def mk(op, args, variant):
    argt, _, extra = variant
    if extra is not None:
        return ("op", op, tuple(args), extra, argt[0])
    return ("op", op, tuple(args), None)


def leaves_of(e, acc=None):
    acc = [] if acc is None else acc
    if e[0] == "col":
        if (e[1], e[2]) not in acc:
            acc.append((e[1], e[2]))
    elif e[0] == "op":
        for a in e[2]:
            leaves_of(a, acc)
    return acc


class Namer:
    def __init__(self):
        self.n = 0

    def leaf(self, t):
        self.n += 1
        return ("col", "c%d" % self.n, t)


def depth1():
    for op in R.ALL_OPS:
        for v in variants(op):
            nm = Namer()
            yield op, v, mk(op, [nm.leaf(t) for t in v[0]], v)


def pair_variants(outer, slot, inner):
    """first (smallest) well-typed instantiation of outer[slot] <- inner"""
    for ov in sorted(variants(outer), key=lambda v: len(v[0])):
        if slot >= len(ov[0]):
            continue
        for iv in sorted(variants(inner), key=lambda v: len(v[0])):
            if iv[1] == ov[0][slot]:
                return ov, iv
    return None


def all_pairs():
    for outer in R.ALL_OPS:
        nslots = max(len(v[0]) for v in variants(outer))
        for slot in range(nslots):
            for inner in R.ALL_OPS:
                pv = pair_variants(outer, slot, inner)
                if pv:
                    yield outer, slot, inner, pv


def build_pair(outer, slot, inner, pv):
    ov, iv = pv
    nm = Namer()
    args = []
    for i, t in enumerate(ov[0]):
        if i == slot:
            args.append(mk(inner, [nm.leaf(x) for x in iv[0]], iv))
        else:
            args.append(nm.leaf(t))
    return mk(outer, args, ov)


REPS = ["+", "<", "and", "||", "in", "if", "abs", "length"]     # one representative per class (+ length: String -> Integer)


def build_path(path, last):
    """path = [(op, slot), ...] outermost first, last = innermost operator; first well-typed instantiation (DFS)"""
    def rec_(i, want):
        # -> list of candidate builders for position i producing type ``want`` (None = any)
        if i == len(path):
            for v in sorted(variants(last), key=lambda v: len(v[0])):
                if want is None or v[1] == want:
                    return lambda nm, v=v: mk(last, [nm.leaf(t) for t in v[0]], v)
            return None
        op, slot = path[i]
        for v in sorted(variants(op), key=lambda v: len(v[0])):
            if slot >= len(v[0]) or (want is not None and v[1] != want):
                continue
            sub = rec_(i + 1, v[0][slot])
            if sub is None:
                continue

            def b(nm, v=v, sub=sub, op=op, slot=slot):
                args = []
                for k, t in enumerate(v[0]):
                    args.append(sub(nm) if k == slot else nm.leaf(t))
                return mk(op, args, v)
            return b
        return None
    f = rec_(0, None)
    return None if f is None else f(Namer())


def table_ds(leaves):
    names = [n for n, _ in leaves]
    rows = []
    for i, vals in enumerate(itertools.product(*[R.DOMAIN[t] for _, t in leaves])):
        r = {"Id_1": i}
        r.update(zip(names, vals))
        rows.append(r)
    return DS("DS_1", [("Id_1", INT, ID)] + [(n, t, ME) for n, t in leaves], rows)


def table_size(leaves):
    n = 1
    for _, t in leaves:
        n *= len(R.DOMAIN[t])
    return n


MAX_ROWS = 12000


def job_table(rec, expr, opkey, seed, isolate_cap):
    leaves = leaves_of(expr)
    if table_size(leaves) > MAX_ROWS:
        rec.tool_error("truth table of %s has %d rows" % (R.render(expr), table_size(leaves)))
        return
    ds = table_ds(leaves)
    e = ("calc", ("ds", "DS_1"), (("R", expr),))
    run_split(rec, e, [ds], None, "Id_1", opkey, "component", ",".join(t for _, t in leaves), seed, isolate_cap=isolate_cap)


# ---------------------------------------------------------------------------------------------------------
# scalar level
# ---------------------------------------------------------------------------------------------------------

def job_scalar(rec, op, variant, form, seed):
    argt = variant[0]
    types = ",".join(argt)
    for combo in itertools.product(*[range(len(R.DOMAIN[t])) for t in argt]):
        scalars = {}
        if form == "literal":
            args = [("lit", t, R.DOMAIN[t][k]) for t, k in zip(argt, combo)]
        else:
            args = [("sc", "sc_%d" % i, t) for i, t in enumerate(argt)]
            scalars = {"sc_%d" % i: (t, R.DOMAIN[t][k]) for i, (t, k) in enumerate(zip(argt, combo))}
        e = mk(op, args, variant)
        vals = [R.DOMAIN[t][k] for t, k in zip(argt, combo)]
        submit_one(rec, e, [], scalars or None, "scalar", None, op,
                   (op, "scalar:" + form, types, "".join("n" if v is None else "v" for v in vals)))


def scalars_used(exprs, scalars):
    names = set()

    def walk(e):
        if e[0] == "sc":
            names.add(e[1])
        elif e[0] == "op":
            for a in e[2]:
                walk(a)
    for e in exprs:
        walk(e)
    return {n: scalars[n] for n in sorted(names)}


# ---------------------------------------------------------------------------------------------------------
# dataset level
# ---------------------------------------------------------------------------------------------------------

ABSENT = "<absent>"
DS_DOM = {INT: [None, -1, 2], NUM: [None, -1.5, 2.5], BOOL: [None, True, False], STR: [None, "a", "Ab "]}
KEYS = (1, 2)


def relations(t):
    """all functions from the key universe to D_t + {absent}: 16"""
    return list(itertools.product([ABSENT] + DS_DOM[t], repeat=len(KEYS)))


def second(t, v):
    """value of a second / third measure derived from the first (so that measures differ)"""
    d = DS_DOM[t]
    return d[(d.index(v) + 1) % len(d)]


def packed(name, mtypes, cases, extra_ids=(), attr=True):
    """cases: [(C_id, relation)] -> dataset with identifiers C_id, Id_1 (+ extra constant identifiers)"""
    comps = [("C_id", INT, ID), ("Id_1", INT, ID)] + [(n, t, ID) for n, t, _ in extra_ids]
    comps += [("Me_%d" % (i + 1), t, ME) for i, t in enumerate(mtypes)]
    if attr:
        comps.append(("At_1", STR, "Attribute"))
    rows = []
    for cid, rel in cases:
        for k, v in zip(KEYS, rel):
            if v == ABSENT and not (v is True):
                continue
            base = {"C_id": cid, "Id_1": k}
            vals = [v]
            for t in mtypes[1:]:
                vals.append(second(t, vals[-1]) if t == mtypes[0] else DS_DOM[t][(DS_DOM[mtypes[0]].index(v) + 1) % 3])
            for i, x in enumerate(vals):
                base["Me_%d" % (i + 1)] = x
            if attr:
                base["At_1"] = "q"
            if extra_ids:
                for combo in itertools.product(*[vs for _, _, vs in extra_ids]):
                    r = dict(base)
                    r.update(zip([n for n, _, _ in extra_ids], combo))
                    rows.append(r)
            else:
                rows.append(base)
    return DS(name, comps, rows)


def dsnode(op, args, extra=None, settype=None):
    if extra is not None:
        return ("op", op, tuple(args), extra, settype)
    return ("op", op, tuple(args), None)


MULTI_OK = [o for o in R.ALL_OPS if o not in R.MONO_ONLY]
INFIX_BIN = ["+", "-", "*", "/", "=", "<>", "<", "<=", ">", ">=", "and", "or", "xor", "||"]
DD_OPS = INFIX_BIN + ["mod", "nvl"]
# operators with scalar parameters applied to a dataset: (operator, measure type, literal parameters)
PARAM_FORMS = [
    ("substr", STR, (2,)), ("substr", STR, (1, 2)), ("replace", STR, ("b",)), ("replace", STR, ("b", "c")),
    ("instr", STR, ("b",)), ("instr", STR, ("b", 1)), ("instr", STR, ("b", 1, 1)),
    ("between", INT, (0, 2)), ("between", NUM, (-1.5, 2.5)), ("between", INT, (-1.5, 0.5)),
    ("round", NUM, ()), ("round", NUM, (1,)), ("round", NUM, (0,)), ("round", INT, (1,)),
    ("trunc", NUM, ()), ("trunc", NUM, (1,)), ("trunc", NUM, (0,)), ("trunc", INT, (1,)),
    ("log", INT, (2,)), ("log", NUM, (2,)), ("power", INT, (2,)), ("power", NUM, (2,)), ("power", NUM, (0.5,)), ("power", INT, (-1,)),
]
UNARY = ["neg", "pos", "not", "upper", "lower", "trim", "ltrim", "rtrim", "length", "isnull", "abs", "ceil", "floor",
         "sqrt", "exp", "ln"]


def lit_of(v):
    return ("lit", R._guess(v), v)


def job_dd(rec, op, lt, rt, nmeas, seed):
    rl, rr = relations(lt), relations(rt)
    c1, c2 = [], []
    for i, a in enumerate(rl):
        for j, b in enumerate(rr):
            c1.append((i * len(rr) + j, a))
            c2.append((i * len(rr) + j, b))
    d1 = packed("DS_1", [lt] * nmeas, c1)
    d2 = packed("DS_2", [rt] * nmeas, c2, attr=False)
    e = dsnode(op, [("ds", "DS_1"), ("ds", "DS_2")])
    run_split(rec, e, [d1, d2], None, "C_id", op, "dataset", "ds*ds:%s,%s:m%d" % (lt, rt, nmeas), seed, shape="ds*ds")


def job_dscalar(rec, op, lt, rt, nmeas, side, form, seed):
    """ds (x) scalar / scalar (x) ds for every value of the scalar's domain; literal or typed scalar input"""
    dt, st = (lt, rt) if side == "ds*sc" else (rt, lt)
    cases = list(enumerate(relations(dt)))
    d1 = packed("DS_1", [dt] * nmeas, cases)
    for v in R.DOMAIN[st]:
        if form == "literal":
            sc, scalars = ("lit", st, v), None
        else:
            sc, scalars = ("sc", "sc_1", st), {"sc_1": (st, v)}
        args = [("ds", "DS_1"), sc] if side == "ds*sc" else [sc, ("ds", "DS_1")]
        e = dsnode(op, args)
        run_split(rec, e, [d1], scalars, "C_id", op, "dataset", "%s:%s,%s:m%d:%s:%s" % (side, lt, rt, nmeas, form, vclass(v)), seed, shape=side,
                  isolate_cap=3)


def job_dsparam(rec, op, mt, params, nmeas, seed):
    cases = list(enumerate(relations(mt)))
    d1 = packed("DS_1", [mt] * nmeas, cases)
    e = dsnode(op, [("ds", "DS_1")] + [lit_of(p) for p in params])
    run_split(rec, e, [d1], None, "C_id", op, "dataset", "fn(ds%s):%s:m%d" % ("".join(",p" for _ in params), mt, nmeas), seed, shape="unary(ds)", isolate_cap=4)


def job_dsset(rec, op, mt, members, seed):
    cases = list(enumerate(relations(mt)))
    d1 = packed("DS_1", [mt], cases)
    e = dsnode(op, [("ds", "DS_1")], members, mt)
    run_split(rec, e, [d1], None, "C_id", op, "dataset", "ds in set:%s:%d" % (mt, len(members)), seed, shape="unary(ds)")


def unpacked_shapes(lt, rt):
    """-> [(label, DS_1, DS_2)]: operands that packing cannot express"""
    a, b = DS_DOM[lt][1], DS_DOM[rt][2]
    i1, i2 = ("Id_1", INT, ID), ("Id_2", STR, ID)

    def mkds(name, t, rows, ids=(i1,)):
        comps = list(ids) + [("Me_1", t, ME)]
        return DS(name, comps, [dict(zip([c[0] for c in comps], r)) for r in rows])
    return [
        ("both-empty", mkds("DS_1", lt, []), mkds("DS_2", rt, [])),
        ("left-empty", mkds("DS_1", lt, []), mkds("DS_2", rt, [(1, b), (2, None)])),
        ("right-empty", mkds("DS_1", lt, [(1, a), (2, None)]), mkds("DS_2", rt, [])),
        ("disjoint-keys", mkds("DS_1", lt, [(1, a), (2, None)]), mkds("DS_2", rt, [(3, b), (4, b)])),
        ("extra-identifier-left", mkds("DS_1", lt, [(1, "x", a), (1, "y", None), (2, "x", a), (3, "y", a)], (i1, i2)),
         mkds("DS_2", rt, [(1, b), (2, None), (4, b)])),
        ("extra-identifier-right", mkds("DS_1", lt, [(1, a), (2, None), (4, a)]),
         mkds("DS_2", rt, [(1, "x", b), (1, "y", None), (2, "x", b), (3, "y", b)], (i1, i2))),
    ]


def job_unpacked(rec, op, lt, rt, seed):
    for label, d1, d2 in unpacked_shapes(lt, rt):
        if op == "nvl" and label.startswith("extra-identifier"):
            continue        # whether nvl(ds, ds) admits different identifier sets is not stated by the manual
        e = dsnode(op, [("ds", "DS_1"), ("ds", "DS_2")])
        submit_one(rec, e, [d1, d2], None, "dataset", "ds*ds:" + label, op, (op, "dataset", "ds*ds:%s,%s" % (lt, rt), label))


def job_zero_divisor(rec, op, lt, rt, seed):
    """x / 0 at dataset level: a matched zero divisor must raise, an unmatched one must not"""
    z = 0 if rt == INT else 0.0
    a = DS_DOM[lt][2]
    i1 = ("Id_1", INT, ID)

    def mkds(name, t, rows):
        return DS(name, [i1, ("Me_1", t, ME)], [{"Id_1": k, "Me_1": v} for k, v in rows])
    for label, d1, d2 in [
        ("matched-zero", mkds("DS_1", lt, [(1, a), (2, a)]), mkds("DS_2", rt, [(1, DS_DOM[rt][2]), (2, z)])),
        ("unmatched-zero", mkds("DS_1", lt, [(1, a), (2, a)]), mkds("DS_2", rt, [(1, DS_DOM[rt][2]), (3, z)])),
        ("zero-under-null", mkds("DS_1", lt, [(1, None)]), mkds("DS_2", rt, [(1, z)])),
    ]:
        e = dsnode(op, [("ds", "DS_1"), ("ds", "DS_2")])
        submit_one(rec, e, [d1, d2], None, "dataset", "ds*ds:" + label, op, (op, "dataset", "ds*ds:%s,%s" % (lt, rt), label))


# dataset-level if-then-else: condition forms x operand shapes, 16 condition relations x 4 x 4 operand relations
IF_COND = ["bool-dataset", "ds-vs-scalar", "ds-vs-ds", "membership-vs-scalar"]
IF_SHAPES = ["ds,ds", "ds,scalar", "scalar,ds"]
FEW = [(ABSENT, ABSENT), (-1, None), (ABSENT, 2), (2, -1)]


def job_dsif(rec, cond_form, shape, seed):
    crel = relations(BOOL)
    cases_c, cases_n, cases_t, cases_e = [], [], [], []
    cid = 0
    for c in crel:
        for t in FEW:
            for el in FEW:
                cases_c.append((cid, c))
                # a numeric dataset whose comparison with 0 gives the boolean relation c
                cases_n.append((cid, tuple(ABSENT if v == ABSENT else (None if v is None else (2 if v else -1)) for v in c)))
                cases_t.append((cid, t))
                cases_e.append((cid, el))
                cid += 1
    dss = []
    if cond_form == "bool-dataset":
        dss.append(packed("DS_c", [BOOL], cases_c, attr=False))
        cond = ("ds", "DS_c")
    elif cond_form == "ds-vs-scalar":
        dss.append(packed("DS_c", [INT], cases_n, attr=False))
        cond = dsnode(">", [("ds", "DS_c"), ("lit", INT, 0)])
    elif cond_form == "membership-vs-scalar":
        dss.append(packed("DS_c", [INT], cases_n, attr=False))
        cond = dsnode(">", [("mem", ("ds", "DS_c"), "Me_1"), ("lit", INT, 0)])
    else:
        dss.append(packed("DS_c", [INT], cases_n, attr=False))
        dss.append(packed("DS_z", [INT], [(c, tuple(ABSENT if v == ABSENT else 0 for v in rel)) for c, rel in cases_n], attr=False))
        cond = dsnode(">", [("ds", "DS_c"), ("ds", "DS_z")])
    if shape.split(",")[0] == "ds":
        dss.append(packed("DS_1", [INT], cases_t, attr=False))
        then = ("ds", "DS_1")
    else:
        then = ("lit", INT, 0)
    if shape.split(",")[1] == "ds":
        dss.append(packed("DS_2", [INT], cases_e, attr=False))
        els = ("ds", "DS_2")
    else:
        els = ("lit", INT, 0)
    e = dsnode("if", [cond, then, els])
    run_split(rec, e, dss, None, "C_id", "if", "dataset", "if:%s:%s" % (cond_form, shape), seed, shape="if:" + cond_form)


# ---------------------------------------------------------------------------------------------------------
# work items
# ---------------------------------------------------------------------------------------------------------

def plan(tier):
    items = []
    # component level, depth 1: every instantiation, every error row isolated
    for op, v, e in depth1():
        items.append(("table", to_json(e), op, None))
    # component level, complete depth 2 (one instantiation per (outer, slot, inner)); at most 2 error rows isolated
    for outer, slot, inner, pv in all_pairs():
        items.append(("table", to_json(build_pair(outer, slot, inner, pv)), "%s[%d]<%s" % (outer, slot, inner), 2))
    # scalar level, depth 1
    for op in R.ALL_OPS:
        for v in variants(op):
            if table_size([("x", t) for t in v[0]]) > 200:
                continue
            items.append(("scalar", op, v, "literal"))
            items.append(("scalar", op, v, "input"))
    # dataset level
    for op in DD_OPS:
        sg = [s for s in R.sigs(op) if len(s[0]) == 2]
        for k, (argt, _) in enumerate(sg):
            items.append(("dd", op, argt[0], argt[1], 1))
            items.append(("dscalar", op, argt[0], argt[1], 1, "ds*sc", "literal"))
            if op != "nvl":
                items.append(("dscalar", op, argt[0], argt[1], 1, "sc*ds", "literal"))
            if k == 0:
                items.append(("dscalar", op, argt[0], argt[1], 1, "ds*sc", "input"))
                if op != "nvl":
                    items.append(("dscalar", op, argt[0], argt[1], 1, "sc*ds", "input"))
                items.append(("unpacked", op, argt[0], argt[1]))
                if op in MULTI_OK:
                    items.append(("dd", op, argt[0], argt[1], 2))
                    items.append(("dscalar", op, argt[0], argt[1], 2, "ds*sc", "literal"))
            if op == "/":
                items.append(("zero", op, argt[0], argt[1]))
    for op in UNARY:
        for argt, _ in R.sigs(op):
            if len(argt) == 1:
                items.append(("dsparam", op, argt[0], (), 1))
                if op in MULTI_OK:
                    items.append(("dsparam", op, argt[0], (), 2))
    for op, mt, params in PARAM_FORMS:
        items.append(("dsparam", op, mt, params, 1))
        if op in MULTI_OK:
            items.append(("dsparam", op, mt, params, 2))
    for op in ("in", "not_in"):
        for mt in (INT, NUM, STR):
            for s in R.SETS[mt]:
                items.append(("dsset", op, mt, s))
    for cf in IF_COND:
        for sh in IF_SHAPES:
            items.append(("dsif", cf, sh))
    if tier == "thorough":
        items.extend(plan_thorough())
    return items


def slots_of(op):
    return range(max(len(v[0]) for v in variants(op)))


def fits(e):
    return e is not None and table_size(leaves_of(e)) <= MAX_ROWS


def depth3_paths():
    """complete depth 3 over the representatives: every well-typed path rep[slot] <- rep[slot] <- rep"""
    for o1 in REPS:
        for s1 in slots_of(o1):
            for o2 in REPS:
                for s2 in slots_of(o2):
                    for o3 in REPS:
                        e = build_path([(o1, s1), (o2, s2)], o3)
                        if fits(e):
                            yield "%s[%d]<%s[%d]<%s" % (o1, s1, o2, s2, o3), e


def depth4_chains():
    """every depth-2 pair of the full alphabet extended to a linear chain of depth 4: once with two representatives
    above it, once with two representatives below it (first well-typed choice in the fixed order of REPS)"""
    rep_slots = [(r, s) for r in REPS for s in slots_of(r)]
    for outer, slot, inner, _ in all_pairs():
        done = False
        for r2, s2 in rep_slots:
            for r1, s1 in rep_slots:
                e = build_path([(r2, s2), (r1, s1), (outer, slot)], inner)
                if fits(e):
                    yield "%s[%d]<%s[%d]<%s[%d]<%s" % (r2, s2, r1, s1, outer, slot, inner), e
                    done = True
                    break
            if done:
                break
        done = False
        for s_in in slots_of(inner):
            for ra, sa in rep_slots:
                for rb in REPS:
                    e = build_path([(outer, slot), (inner, s_in), (ra, sa)], rb)
                    if fits(e):
                        yield "%s[%d]<%s[%d]<%s[%d]<%s" % (outer, slot, inner, s_in, ra, sa, rb), e
                        done = True
                        break
                if done:
                    break
            if done:
                break


THREE = {  # (inner operator, outer operator) pairs over three datasets, by measure type
    INT: [(a, b) for a in ("+", "-", "*", "/") for b in ("+", "-", "*", "/", "<", "=")],
    BOOL: [(a, b) for a in ("and", "or", "xor") for b in ("and", "or", "xor")],
    STR: [("||", "||"), ("||", "=")],
}
ID_CONFIGS = [(1, 1), (2, 1), (1, 2), (2, 2), (3, 1), (1, 3), (3, 2), (2, 3), (3, 3)]
EXTRA_IDS = [("Id_2", STR, ["x", "y"]), ("Id_3", INT, [7, 8])]
TYPE_REP = {INT: "+", NUM: "*", BOOL: "and", STR: "||"}


def job_three(rec, t, op_in, op_out, assoc, seed):
    """three input datasets: all 16^3 relations packed in one run"""
    rel = relations(t)
    c = [[], [], []]
    cid = 0
    for a in rel:
        for b in rel:
            for d in rel:
                for k, r in enumerate((a, b, d)):
                    c[k].append((cid, r))
                cid += 1
    dss = [packed("DS_%d" % (k + 1), [t], c[k], attr=(k == 0)) for k in range(3)]
    d1, d2, d3 = ("ds", "DS_1"), ("ds", "DS_2"), ("ds", "DS_3")
    if assoc == "left":
        e = dsnode(op_out, [dsnode(op_in, [d1, d2]), d3])
    else:
        e = dsnode(op_out, [d1, dsnode(op_in, [d2, d3])])
    run_split(rec, e, dss, None, "C_id", "%s(%s)" % (op_out, op_in), "dataset", "3ds:%s:%s" % (t, assoc), seed, shape="3ds", isolate_cap=3)


def job_ids(rec, op, t, nl, nr, nmeas, seed):
    """1-3 identifiers on either side (the identifiers of one operand contain the other's), 1-3 measures"""
    rl = relations(t)
    c1, c2 = [], []
    for i, a in enumerate(rl):
        for j, b in enumerate(rl):
            c1.append((i * 16 + j, a))
            c2.append((i * 16 + j, b))
    d1 = packed_varied("DS_1", [t] * nmeas, c1, EXTRA_IDS[:nl - 1])
    d2 = packed_varied("DS_2", [t] * nmeas, c2, EXTRA_IDS[:nr - 1])
    e = dsnode(op, [("ds", "DS_1"), ("ds", "DS_2")])
    run_split(rec, e, [d1, d2], None, "C_id", op, "dataset", "ds*ds:%s:ids%d,%d:m%d" % (t, nl, nr, nmeas), seed, shape="ds*ds:ids")


def packed_varied(name, mtypes, cases, extra_ids):
    """like packed(), but the measure values depend on the extra identifiers (rotation inside the domain)"""
    base = packed(name, mtypes, cases, attr=False)
    if not extra_ids:
        return base
    comps = [c for c in base.comps if c[2] == ID] + [(n, t, ID) for n, t, _ in extra_ids] + [c for c in base.comps if c[2] != ID]
    rows = []
    for r in base.rows:
        for k, combo in enumerate(itertools.product(*[vs for _, _, vs in extra_ids])):
            if (r["C_id"] + k) % 5 == 4:
                continue                      # some combinations are absent
            x = dict(r)
            x.update(zip([n for n, _, _ in extra_ids], combo))
            for i, t in enumerate(mtypes):
                d = DS_DOM[t]
                x["Me_%d" % (i + 1)] = d[(d.index(r["Me_%d" % (i + 1)]) + k) % len(d)]
            rows.append(x)
    return DS(name, comps, rows)


def nested_dataset_exprs():
    """dataset-level nesting (depth 2): unary(ds*ds), (ds*scalar)*ds, parameterised(ds*ds), conditional over expressions"""
    d1, d2 = ("ds", "DS_1"), ("ds", "DS_2")
    L = lambda t, v: ("lit", t, v)        # noqa: E731
    out = [
        (INT, dsnode("abs", [dsnode("-", [d1, d2])])),
        (INT, dsnode("neg", [dsnode("*", [d1, d2])])),
        (INT, dsnode("*", [dsnode("+", [d1, L(INT, 1)]), d2])),
        (INT, dsnode("-", [d1, dsnode("*", [L(INT, 2), d2])])),
        (INT, dsnode("isnull", [dsnode("+", [d1, d2])])),
        (INT, dsnode("between", [dsnode("+", [d1, d2]), L(INT, 0), L(INT, 3)])),
        (INT, dsnode("in", [dsnode("+", [d1, d2]), ], (1, 4), INT)),
        (INT, dsnode("and", [dsnode(">", [d1, L(INT, 0)]), dsnode(">", [d2, L(INT, 0)])])),
        (INT, dsnode("or", [dsnode("=", [d1, d2]), dsnode("isnull", [d1])])),
        (INT, dsnode("+", [dsnode("nvl", [d1, L(INT, 0)]), d2])),
        (INT, dsnode("nvl", [dsnode("+", [d1, d2]), L(INT, 7)])),
        (INT, dsnode("/", [d1, dsnode("-", [d2, L(INT, 2)])])),
        (INT, dsnode("mod", [dsnode("abs", [d1]), dsnode("abs", [d2])])),
        (INT, dsnode("power", [dsnode("+", [d1, d2]), L(INT, 2)])),
        (INT, dsnode("sqrt", [dsnode("*", [d1, d2])])),
        (INT, dsnode("ln", [dsnode("+", [d1, d2])])),
        (INT, dsnode("if", [dsnode(">", [("mem", d1, "Me_1"), L(INT, 0)]), dsnode("+", [d1, L(INT, 1)]), d2])),
        (INT, dsnode("if", [dsnode(">", [("mem", d1, "Me_1"), L(INT, 0)]), d1, dsnode("neg", [d2])])),
        (NUM, dsnode("round", [dsnode("/", [d1, d2]), L(INT, 2)])),
        (NUM, dsnode("ceil", [dsnode("*", [d1, d2])])),
        (NUM, dsnode("floor", [dsnode("+", [d1, L(NUM, 0.5)])])),
        (NUM, dsnode("trunc", [dsnode("-", [d1, d2]), L(INT, 0)])),
        (NUM, dsnode("exp", [dsnode("-", [d1, d2])])),
        (NUM, dsnode("<", [dsnode("abs", [d1]), dsnode("abs", [d2])])),
        (BOOL, dsnode("not", [dsnode("and", [d1, d2])])),
        (BOOL, dsnode("xor", [dsnode("not", [d1]), d2])),
        (BOOL, dsnode("or", [d1, dsnode("and", [d2, L(BOOL, True)])])),
        (BOOL, dsnode("isnull", [dsnode("or", [d1, d2])])),
        (BOOL, dsnode("=", [dsnode("not", [d1]), d2])),
        (STR, dsnode("length", [dsnode("||", [d1, d2])])),
        (STR, dsnode("upper", [dsnode("||", [d1, d2])])),
        (STR, dsnode("||", [dsnode("trim", [d1]), dsnode("lower", [d2])])),
        (STR, dsnode("||", [dsnode("||", [d1, L(STR, "-")]), d2])),
        (STR, dsnode("=", [dsnode("upper", [d1]), dsnode("upper", [d2])])),
        (STR, dsnode("instr", [dsnode("||", [d1, d2]), L(STR, "a")])),
        (STR, dsnode("substr", [dsnode("||", [d1, d2]), L(INT, 2), L(INT, 2)])),
        (STR, dsnode("replace", [dsnode("||", [d1, d2]), L(STR, "a"), L(STR, "bb")])),
        (STR, dsnode("nvl", [dsnode("||", [d1, d2]), L(STR, "z")])),
    ]
    return out


def job_nested(rec, idx, seed):
    t, e = nested_dataset_exprs()[idx]
    rl = relations(t)
    c1, c2 = [], []
    for i, a in enumerate(rl):
        for j, b in enumerate(rl):
            c1.append((i * 16 + j, a))
            c2.append((i * 16 + j, b))
    d1, d2 = packed("DS_1", [t], c1), packed("DS_2", [t], c2, attr=False)
    run_split(rec, e, [d1, d2], None, "C_id", top_operator(e), "dataset", "nested:%s" % t, seed, shape="nested", isolate_cap=3)


def job_scalar2(rec, outer, slot, inner, seed):
    """scalar level, depth 2, literals"""
    ov, iv = pair_variants(outer, slot, inner)
    types = []
    for i, t in enumerate(ov[0]):
        types.extend(iv[0] if i == slot else [t])
    if table_size([("x", t) for t in types]) > 300:
        return
    opkey = "%s[%d]<%s" % (outer, slot, inner)
    n_err = 0
    for combo in itertools.product(*[R.DOMAIN[t] for t in types]):
        vals = list(combo)
        args, k = [], 0
        for i, t in enumerate(ov[0]):
            if i == slot:
                n = len(iv[0])
                args.append(mk(inner, [("lit", x, v) for x, v in zip(iv[0], vals[k:k + n])], iv))
                k += n
            else:
                args.append(("lit", t, vals[k]))
                k += 1
        e = mk(outer, args, ov)
        alts = R.eval_scalar(e, {})
        if alts == [ERR]:
            n_err += 1
            if n_err > 2:                       # at most two predicted-error statements are run alone
                rec.case((opkey, "scalar:literal", ",".join(types), "".join("n" if v is None else "v" for v in vals), "error"), "error-not-run", nontrivial=False)
                continue
        submit_one(rec, e, [], None, "scalar", None, opkey,
                   (opkey, "scalar:literal", ",".join(types), "".join("n" if v is None else "v" for v in vals)))


def plan_thorough():
    items = []
    for opkey, e in depth3_paths():
        items.append(("table", to_json(e), opkey, 1))
    for opkey, e in depth4_chains():
        items.append(("table", to_json(e), opkey, 1))
    for t, pairs in THREE.items():
        for op_in, op_out in pairs:
            for assoc in ("left", "right"):
                items.append(("three", t, op_in, op_out, assoc))
    for t, op in TYPE_REP.items():
        for nl, nr in ID_CONFIGS:
            for nmeas in (1, 2, 3):
                items.append(("ids", op, t, nl, nr, nmeas))
            items.append(("ids", "=", t, nl, nr, 1))
    for op in DD_OPS:
        if op in MULTI_OK:
            for argt, _ in [s for s in R.sigs(op) if len(s[0]) == 2]:
                items.append(("dd", op, argt[0], argt[1], 3))
    for i in range(len(nested_dataset_exprs())):
        items.append(("nested", i))
    for outer in REPS:
        for slot in slots_of(outer):
            for inner in R.ALL_OPS:
                if pair_variants(outer, slot, inner):
                    items.append(("scalar2", outer, slot, inner))
    return items


def work(item, rec):
    harness.boot()
    seed = item[-1]
    item = item[:-1]
    kind = item[0]
    try:
        if kind == "table":
            job_table(rec, from_json(item[1]), item[2], seed, item[3])
        elif kind == "scalar":
            job_scalar(rec, item[1], item[2], item[3], seed)
        elif kind == "dd":
            job_dd(rec, item[1], item[2], item[3], item[4], seed)
        elif kind == "dscalar":
            job_dscalar(rec, item[1], item[2], item[3], item[4], item[5], item[6], seed)
        elif kind == "dsparam":
            job_dsparam(rec, item[1], item[2], item[3], item[4], seed)
        elif kind == "dsset":
            job_dsset(rec, item[1], item[2], item[3], seed)
        elif kind == "unpacked":
            job_unpacked(rec, item[1], item[2], item[3], seed)
        elif kind == "zero":
            job_zero_divisor(rec, item[1], item[2], item[3], seed)
        elif kind == "dsif":
            job_dsif(rec, item[1], item[2], seed)
        elif kind == "three":
            job_three(rec, item[1], item[2], item[3], item[4], seed)
        elif kind == "ids":
            job_ids(rec, item[1], item[2], item[3], item[4], item[5], seed)
        elif kind == "nested":
            job_nested(rec, item[1], seed)
        elif kind == "scalar2":
            job_scalar2(rec, item[1], item[2], item[3], seed)
        else:
            rec.tool_error("unknown work item %r" % (kind,))
    except R.NotInSubset as ex:
        rec.tool_error("generator produced a statement outside the reference subset: %s (%r)" % (ex, item[:3]))


def batches(items, size):
    return [("batch", chunk) for chunk in harness.chunks(items, size)]


def work_batch(batch, rec):
    seed = 0
    for it in batch[1]:
        seed = it[-1]
        work(it, rec)
    flush(rec, seed)
    if os.environ.get("C01_PROGRESS"):
        with open(os.environ["C01_PROGRESS"], "a") as f:
            f.write("%d items, %d runs, %d violations\n" % (len(batch[1]), rec.counters.get("engine_runs", 0), len(rec.violations)))


class Check:
    ID = "C01"
    LEVEL = "exploration"
    RULE = (
        "Programs: type-directed enumeration over 46 operators (arithmetic + - * / unary+ unary-; = <> < <= > >=; and or xor not; "
        "|| upper lower trim ltrim rtrim length substr replace instr; in not_in between; if case nvl isnull; abs ceil floor round trunc "
        "sqrt exp ln log power mod) at three levels. Component level: one truth table per expression = one dataset whose rows are the "
        "full cartesian product of the leaf domains (Integer {null,-1,0,2}, Number {null,-1.5,0.0,2.5}, Boolean {null,true,false}, "
        "String {null,'a','Ab ','n~E'}), evaluated with calc; quick = every well-typed instantiation of every operator at depth 1 (every "
        "predicted-error row also run alone, and the table with the error rows must raise) + every well-typed (outer operator, slot, "
        "inner operator) pair = complete depth 2 (first instantiation; <= 2 error rows isolated); thorough adds complete depth-3 paths over "
        "8 representatives (+ < and || in if abs length) and, for every depth-2 pair, two depth-4 linear chains (two representatives above / "
        "below). Scalar level: every instantiation x full product of the domains as literals (x <- 1 + null) and as typed scalar inputs; "
        "thorough adds depth 2 under the representatives. Dataset level: every binary operator x {ds*ds, ds*scalar, scalar*ds} x every "
        "signature; ds*ds over all 16x16 relations key->value|absent of a 2-key universe packed through the identifier C_id (mono-measure, and "
        "two-measure where the manual allows it), scalar shapes over 16 relations x every scalar value (literal and scalar input), unary and "
        "parameterised operators over the 16 relations, in/not_in over 9 literal sets, if-then-else over 4 condition forms x 3 operand shapes "
        "x 16x4x4 relations, unpacked shapes {both empty, left empty, right empty, disjoint keys, extra identifier left / right}, zero divisor "
        "matched / unmatched; thorough adds three input datasets (16^3 relations packed), 1-3 identifiers on either side, 1-3 measures of "
        "every basic type and 38 nested dataset expressions. A case = one truth-table row / one C_id slice / one scalar statement; coverage "
        "key = (operator path, level, operand types and shape, null pattern, outcome in {value, null, error, absent, ...}); non-trivial = "
        "the reference gives a definite outcome (rows on which the manual is silent are executed but trivial). VERIF_SEED permutes the order "
        "of the work items and the physical row order of every input dataset.")
    ASSUMPTIONS = [
        "oracle = vtlmc/ref_c01.py, written from the VTL 2.1 reference manual, calibrated at run time on the Reference-Manual examples stored "
        "in tests/ReferenceManual (RM013-RM098, 161, 162, 164, 183 inside the subset; RM027/RM031 excluded: the repository's own test expects "
        "an error for multi-measure instr/length); >=, lower, trim, ltrim, not_in have no stored example and are the mirror images of <=, upper, "
        "rtrim, in",
        "null propagates through every operator except: and/or (Kleene), isnull, nvl, if (null condition -> else operand, 'elseOperand "
        "otherwise'), case (null condition = not true); dataset-level if with a null condition: the datapoint may be absent or take the else "
        "operand (scalar vs dataset wording of the manual), both accepted",
        "case with several true conditions: the first (manual) or the last (engine documents 'last match wins') then-operand, both accepted",
        "an error inside an operand that the result does not need (if/case branch not taken, nvl default not used, false and x, true or x): "
        "raising or not raising are both accepted",
        "null / 0: null or an error, both accepted; x / 0 with x not null must raise",
        "empty string: never an input; an empty-string result (substr past the end, replace by nothing, trim) may be '' or null",
        "round: ties of positive numbers round up (RM examples), ties of negative numbers up or away from zero (both accepted); round/trunc only "
        "with 0 <= digits <= 4 (other digits, null digits: not modelled); trunc truncates towards zero",
        "mod only with a positive divisor (divisor <= 0 not modelled); negative dividend: sign of the dividend or of the divisor, both accepted",
        "power: 0 to a non-positive exponent and a negative base with a fractional exponent are not modelled; log only with an integer base >= 2, "
        "argument in (0,1]: value or error (operand constraint 'value > 1' in the manual's signature); sqrt of a negative number, ln/log of a "
        "number <= 0 must raise",
        "sqrt exp ln log power and non-integer division results are inexact: compared at 1e-9 relative, and discontinuous operators (comparisons, "
        "in, between, ceil, floor, round, trunc, mod) accept both sides when such a value lies within 1e-9 of the discontinuity",
        "ordering comparisons of different strings (collation) and of booleans, between on strings, null members of in-sets: not modelled; "
        "between with a null bound: null, or false when the other bound already decides (Kleene reading), both accepted",
        "null / out-of-range secondary parameters (substr start < 1 or null, length < 0, instr start/occurrence < 1, empty or null pattern): "
        "not modelled; instr with start > 1: position from the beginning or from start, both accepted; overlapping occurrences: both counts",
        "comparison / membership / isnull / length / instr on datasets only mono-measure (bool_var / int_var); dataset operands must have equally "
        "named measures and the identifiers of one must contain the other's; attributes are not compared",
        "an error inside an operand while another operand of a null-propagating operator is null: null or the error, both accepted (no "
        "evaluation order in the manual)",
        "a mono-measure dataset operator that changes the measure's type (ceil, floor, round/trunc without digits on Number ...) may keep the "
        "measure name or use the default name of the new type (int_var, num_var, string_var, bool_var); comparison / membership / isnull must "
        "give bool_var and length / instr int_var; nvl only with operands of one type, nvl(ds, ds) only with equal identifiers",
        "a raw (non-VTL) exception on a row the reference does not model is counted (raw_errors_at_unmodelled_points) but is C32's business, "
        "not a C01 violation",
    ]

    def run(self, tier, seed, rec):
        harness.boot()
        n, problems, seen, skipped = calibrate()
        for p in problems:
            rec.tool_error("oracle not calibrated: " + p)
        if problems or n < 60:
            if not problems:
                rec.tool_error("oracle not calibrated: only %d Reference-Manual examples reproduced" % n)
            return {"exhaustive": False, "traces_validated_against_impl": n}
        only = os.environ.get("C01_ONLY")
        items = [it for it in plan(tier) if not only or it[0] in only.split(",")]
        lim = os.environ.get("C01_SLICE")
        if lim:
            a, b = lim.split(":")
            items = items[int(a):int(b)]
        items = [tuple(it) + (seed,) for it in harness.seeded_order(items, seed)]
        harness.pmap(work_batch, batches(items, 8), rec)
        if os.environ.get("C01_DUMP"):
            with open(os.environ["C01_DUMP"], "w", encoding="utf-8") as f:
                for v in rec.violations:
                    f.write("%s :: %s\n" % (v["key"], v["what"][:500].replace("\n", " ")))
        aggregate(rec)
        # non-vacuity: every operator produced a non-null value at component level (depth 1) and was executed at every level
        if not only and not lim:
            for op in R.ALL_OPS:
                for level in ("component", "scalar:literal", "scalar:input", "dataset"):
                    if op == "case" and level == "dataset":
                        continue
                    if not any(k[0] == op and k[1] == level and k[4] == "value" for k in rec.keys):
                        rec.tool_error("operator %s never produced a non-null value at level %s" % (op, level))
            if not rec.outcomes.get("error"):
                rec.tool_error("no predicted-error row was executed")
            if not rec.outcomes.get("absent"):
                rec.tool_error("no unmatched datapoint was exercised")
        by_outcome = {}
        for k in rec.keys:
            by_outcome[k[4]] = by_outcome.get(k[4], 0) + 1
        return {"exhaustive": True, "traces_validated_against_impl": n, "work_items": len(items),
                "calibration_operators": sorted(seen), "operators_modelled": R.ALL_OPS,
                "operators_without_reference_manual_example": sorted(set(R.ALL_OPS) - seen),
                "distinct_keys_by_outcome": by_outcome}

    def replay(self, data):
        harness.boot()
        e = from_json(data["expr"])
        dss = [ds_from_json(j) for j in data["datasets"]]
        scalars = {n: tuple(v) for n, v in (data.get("scalars") or {}).items()}
        devs, _, _ = judge(e, dss, scalars or None)
        for d in real(devs):
            print("   ", statement(e, data.get("level") == "scalar"), "->", describe(d))
        return bool(real(devs))


def aggregate(rec):
    """one finding key per (operator, level, kind of deviation): the smallest equivalence class among the failing runs"""
    raw, rec.violations = rec.violations, []
    groups = {}
    for v in raw:
        m = v["replay"]["meta"]
        groups.setdefault((m["op"], m["level"], m["dev"]), []).append(v)
    for (op, level, dev), vs in sorted(groups.items()):
        best = min(vs, key=lambda v: (v["replay"]["meta"]["cls"], len(str(v["replay"]["datasets"])), v["what"]))
        others = sorted({v["replay"]["meta"]["cls"] for v in vs} - {best["replay"]["meta"]["cls"]})
        what = best["what"] + ((" [%d failing runs; also for input classes: %s]" % (len(vs), "; ".join(others[:6]))) if others else "")
        rec.violations.append({"key": "C01:%s:%s:%s:%s" % (op, level, best["replay"]["meta"]["cls"], dev), "what": what, "replay": best["replay"]})

"""C08 — time operators follow the real calendar.

Bounded exhaustive: every period of every indicator (A S Q M W D) of every year of the range is put, as identifier
(or measure) values, in ONE dataset per indicator, and each operator is applied to the complete calendar in one
vectorised run(): timeshift(DS, n) for every n of the shift set together with timeshift(timeshift(DS, n), -n);
period_indicator; getyear / getmonth / dayofmonth / dayofyear on every period and on every Date; time_agg from every
indicator (and from Date, first / last) to every coarser one, also as ``sum(DS group all time_agg(T))``; datediff on all
pairs of the boundary windows; dateadd for every shift x {D W M Q S A} on the month-end dates 28..31 (and 29 Feb) of
every year.  Time-series operators (fill_time_series single / all, flow_to_stock, stock_to_flow, timeshift +-1) run on
gap patterns: windows of 6 consecutive periods placed across the year ends 2019/20, 2020/21, 2021/22, 2024/25, 2025/26
(W52->W1, W53->W1, D365->D1, D366->D1, Q4->Q1, M12->M1), every non-empty presence pattern (63) x {one series, two
series with different gaps}, plus all 63 patterns packed as 63 series of one dataset.

Oracle: the reference calendar ``vtlmc.refcal`` (plain datetime; no engine code).
"""
import bisect
import csv
import datetime as dt
import os
import re

from vtlmc import harness
from vtlmc import refcal as R

QUICK_SHIFTS = (-60, -53, -52, -13, -1, 0, 1, 12, 52, 53, 60)
UNITS = ("D", "W", "M", "Q", "S", "A")
WINDOW_YEARS = (2019, 2020, 2021, 2024, 2025)       # the year that ends inside the window
WINDOW_INDS = ("W", "D", "Q", "M")


def yrange(tier):
    return (1995, 2030) if tier == "quick" else (1900, 2100)


def shifts(tier):
    return list(QUICK_SHIFTS) if tier == "quick" else list(range(-60, 61))


_PAD = {"A": 1, "S": 1, "Q": 1, "M": 2, "W": 2, "D": 3}


def pstr(p):
    """neutral text of a period, used for the input data, the expectations and the replays (all documented input
    forms): 2020-A1, 2020-S1, 2020-Q4, 2020-M01, 2020-W53, 2020-D366"""
    return "%04d-%s%0*d" % (p[1], p[0], _PAD[p[0]], p[2])


def is_extra(p):
    return (p[0] == "W" and p[2] == 53) or (p[0] == "D" and p[2] == 366)


LONG = {"W": ("period-53-of-53-week-year", "shift-across-end-of-53-week-year", "shift-within-52-week-years"),
        "D": ("day-366-of-leap-year", "shift-across-end-of-leap-year", "shift-within-365-day-years")}


# ------------------------------------------------------------------------------------------------------------------
# execution + judgement (shared by run() and replay())
# ------------------------------------------------------------------------------------------------------------------

def comps(*spec):
    return [harness.comp(n, t, r) for n, t, r in spec]


def execute(script, structs, data):
    """-> ('ok', {result name: list of row dicts}) | ('err', kind, class, code, msg)"""
    V = harness.boot()
    import pandas as pd
    dfs = {k: pd.DataFrame(v["rows"], columns=v["cols"]) for k, v in data.items()}
    out = harness.call(V.run, script, structs, dfs)
    if out[0] == "err":
        return out
    return ("ok", {k: harness.dataset_rows(v) for k, v in out[1].items() if hasattr(v, "components")})


def norm(rows, kinds):
    """kinds: {col: 'period' | 'date'}: engine text -> neutral text"""
    out = []
    for r in rows:
        q = dict(r)
        for c, k in kinds.items():
            v = q.get(c)
            if v is None:
                continue
            try:
                q[c] = pstr(R.parse_period(v)) if k == "period" else str(v)[:10]
            except Exception:
                q[c] = "<unparsable %r>" % (v,)
        out.append(q)
    return out


def judge(rows, spec):
    """spec = {'key': [cols], 'rows': [{col: value | {'any': [...]}}], 'unique': [[cols]], 'kinds': {...}}
    -> list of (kind, key tuple, column, observed, expected)"""
    rows = norm(rows, spec.get("kinds", {}))
    probs, by, seen = [], {}, set()
    for r in rows:
        by.setdefault(tuple(r.get(k) for k in spec["key"]), []).append(r)
    for e in spec["rows"]:
        k = tuple(e[c] for c in spec["key"])
        seen.add(k)
        got = by.get(k)
        if not got:
            probs.append(("missing-datapoint", k, None, None, e))
            continue
        if len(got) > 1:
            probs.append(("duplicate-identifiers", k, None, len(got), 1))
        for c, ev in e.items():
            if c in spec["key"]:
                continue
            acc = ev["any"] if isinstance(ev, dict) else [ev]
            if got[0].get(c) not in acc:
                probs.append(("wrong-value", k, c, got[0].get(c), acc))
    for k in by:
        if k not in seen:
            probs.append(("unexpected-datapoint", k, None, by[k][0], None))
    for cols in spec.get("unique", []):
        cnt = {}
        for r in rows:
            t = tuple(r.get(c) for c in cols)
            cnt[t] = cnt.get(t, 0) + 1
        for t, c in cnt.items():
            if c > 1:
                probs.append(("duplicate-identifiers", t, None, c, 1))
    return probs


def run_and_judge(case):
    """case = {'script', 'structs', 'data', 'expect': {result: spec}} -> ('err', ...) | ('ok', {result: problems})"""
    out = execute(case["script"], case["structs"], case["data"])
    if out[0] == "err":
        return out
    return ("ok", {name: judge(out[1].get(name) or [], spec) for name, spec in case["expect"].items()})


def sub_case(case, result, keys, data_filter):
    """a small replay: the same script on the input rows selected by data_filter, expectation restricted to ``keys``"""
    spec = case["expect"][result]
    rows = [e for e in spec["rows"] if tuple(e[c] for c in spec["key"]) in keys]
    data = {k: {"cols": v["cols"], "rows": [r for r in v["rows"] if data_filter(dict(zip(v["cols"], r)))]}
            for k, v in case["data"].items()}
    return {"script": case["script"], "structs": case["structs"], "data": data,
            "expect": {result: dict(spec, rows=rows)}}


# ------------------------------------------------------------------------------------------------------------------
# work items
# ------------------------------------------------------------------------------------------------------------------

def _tool(rec, what, out):
    rec.tool_error("%s: engine call failed unexpectedly: %s" % (what, (out[1:4], out[4][:300])))


def w_shift(item, rec):
    """timeshift(DS, n) and timeshift(timeshift(DS, n), -n) on the complete calendar of one indicator"""
    _, ind, n, tier, seed = item
    y0, y1 = yrange(tier)
    tl = R.Timeline(ind, y0 - 62, y1 + 62)
    periods = harness.seeded_order([p for p in tl.items if y0 <= p[1] <= y1], seed)
    extras = [i for i, p in enumerate(tl.items) if is_extra(p)]
    structs = harness.structures(harness.structure("DS_1", comps(("Id_1", "Time_Period", "Identifier"), ("Me_1", "Integer", "Measure"))))
    case = {"script": "DS_r <- timeshift(DS_1, %d); DS_b <- timeshift(timeshift(DS_1, %d), %d);" % (n, n, -n), "structs": structs,
            "data": {"DS_1": {"cols": ["Id_1", "Me_1"], "rows": [[pstr(p), i] for i, p in enumerate(periods)]}},
            "expect": {"DS_r": {"key": ["Me_1"], "kinds": {"Id_1": "period"}, "unique": [["Id_1"]],
                                "rows": [{"Me_1": i, "Id_1": pstr(tl.shift(p, n))} for i, p in enumerate(periods)]},
                       "DS_b": {"key": ["Me_1"], "kinds": {"Id_1": "period"},
                                "rows": [{"Me_1": i, "Id_1": pstr(p)} for i, p in enumerate(periods)]}}}
    out = run_and_judge(case)
    if out[0] == "err":
        return _tool(rec, "timeshift %s %d" % (ind, n), out)

    def cls(i):
        if ind not in LONG:
            return "any-period"
        a = tl.index[periods[i]]
        if is_extra(periods[i]):
            return LONG[ind][0]
        lo, hi = min(a, a + n), max(a, a + n)
        return LONG[ind][1] if bisect.bisect_left(extras, lo) < bisect.bisect_right(extras, hi) else LONG[ind][2]
    bad = {}
    for kind, k, col, ov, ev in out[1]["DS_r"]:
        if kind == "wrong-value":
            bad[k[0]] = (ov, ev[0])
    counts = {}
    for i in range(len(periods)):
        c = (cls(i), "wrong-value" if i in bad else "calendar-correct")
        counts[c] = counts.get(c, 0) + 1
    for (c, o), m in counts.items():
        rec.case(("timeshift", ind, n, c, o), o, n=m, sample={"op": "timeshift", "indicator": ind, "n": n, "class": c, "rows": m})
    first = {}
    for i in sorted(bad):
        first.setdefault(cls(i), []).append(i)
    for c, idx in sorted(first.items()):
        i = idx[0]
        rec.violation("C08:timeshift:%s:%s:wrong-value" % (ind, c),
                      "timeshift(DS, %d) on the %s calendar %d-%d: %s -> %s, calendar says %s (%d such rows of this class in this run)" % (
                          n, ind, y0, y1, pstr(periods[i]), bad[i][0], bad[i][1], len(idx)),
                      sub_case(case, "DS_r", {(i,)}, lambda r, i=i: r["Me_1"] == i))
    dups = [p for p in out[1]["DS_r"] if p[0] == "duplicate-identifiers"]
    rec.case(("timeshift-injective", ind, n, "duplicates" if dups else "no-duplicates"), "shifted-ids-unique" if not dups else "shifted-ids-collide")
    if dups:
        val = dups[0][1][0]
        srcs = [i for i in bad if bad[i][0] == val]
        srcs += [i for i, p in enumerate(periods) if pstr(tl.shift(p, n)) == val and i not in bad]
        rec.violation("C08:timeshift:%s:%s:duplicate-identifiers" % (ind, "calendar-with-53-week-years" if ind == "W" else
                                                                     "calendar-with-leap-years" if ind == "D" else "any-calendar"),
                      "timeshift(DS, %d) on the %s calendar %d-%d: %d identifier values occur more than once, e.g. %s comes from %s" % (
                          n, ind, y0, y1, len(dups), val, [pstr(periods[i]) for i in srcs[:3]]),
                      sub_case(case, "DS_r", {(i,) for i in srcs[:3]}, lambda r, s=set(srcs[:3]): r["Me_1"] in s))
    back = [p for p in out[1]["DS_b"] if p[0] == "wrong-value"]
    rec.case(("timeshift-roundtrip", ind, n, "identity" if not back else "not-identity"), "roundtrip-identity" if not back else "roundtrip-differs")
    if back:
        i = back[0][1][0]
        rec.violation("C08:timeshift:%s:%s:roundtrip-not-identity" % (ind, "calendar-with-53-week-years" if ind == "W" else
                                                                      "calendar-with-leap-years" if ind == "D" else "any-calendar"),
                      "timeshift(timeshift(DS, %d), %d) on the %s calendar: %s comes back as %s (%d rows)" % (
                          n, -n, ind, pstr(periods[i]), back[0][3], len(back)),
                      sub_case(case, "DS_b", {(i,)}, lambda r, i=i: r["Me_1"] == i))
    # W53 / D366 exist in the output exactly for the years that have them (implied by the comparison; measured here)
    if ind in LONG:
        rec.count("extra_periods_expected_in_shift_outputs", sum(1 for p in periods if is_extra(tl.shift(p, n))))
        rec.count("extra_periods_missing_in_shift_outputs", sum(1 for i in bad if is_extra(R.parse_period(bad[i][1]))))


def _anyof(vals):
    vals = sorted(set(vals))
    return vals[0] if len(vals) == 1 else {"any": vals}


def w_extract(item, rec):
    """getyear / getmonth / dayofmonth / dayofyear / period_indicator on every period of one indicator; time_agg to
    every coarser indicator (component form and 'group all' form)"""
    _, ind, tier, seed = item
    y0, y1 = yrange(tier)
    periods = harness.seeded_order([p for y in range(y0, y1 + 1) for p in R.year_periods(ind, y)], seed)
    targets = [t for t in R.INDICATORS if R.RANK[t] >= R.RANK[ind] and t != "D"]   # time_agg("D", ..) is rejected statically
    calc = ["y := getyear(Me_1)", "m := getmonth(Me_1)", "dm := dayofmonth(Me_1)", "dy := dayofyear(Me_1)", "pi := period_indicator(Me_1)"]
    calc += ['t%s := time_agg("%s", Me_1)' % (t, t) for t in targets]
    structs = harness.structures(
        harness.structure("DS_1", comps(("Id_1", "Integer", "Identifier"), ("Me_1", "Time_Period", "Measure"))),
        harness.structure("DS_2", comps(("Id_1", "Time_Period", "Identifier"), ("Id_2", "String", "Identifier"), ("Me_1", "Integer", "Measure"))))
    rows = []
    for i, p in enumerate(periods):
        s, e = R.start_date(p), R.end_date(p)
        w = ind == "W"       # a week is not nested in months / years: both ends are accepted (see ASSUMPTIONS)
        row = {"Id_1": i, "y": _anyof([p[1]] + ([s.year, e.year] if w else [])), "m": _anyof([s.month] + ([e.month] if w else [])),
               "dm": _anyof([e.day] + ([s.day] if w else [])),
               "dy": p[2] if ind == "D" else _anyof([R.day_of_year(e)] + ([R.day_of_year(s)] if w else [])), "pi": ind}
        for t in targets:
            row["t" + t] = _anyof([pstr(q) for q in R.coarser(p, t)])
        rows.append(row)
    s1 = harness.structures(harness.structure("DS_1", comps(("Id_1", "Integer", "Identifier"), ("Me_1", "Time_Period", "Measure"))))
    s2 = harness.structures(harness.structure("DS_2", comps(("Id_1", "Time_Period", "Identifier"), ("Id_2", "String", "Identifier"),
                                                            ("Me_1", "Integer", "Measure"))))
    case = {"script": "DS_r <- DS_1[calc %s];" % ", ".join(calc), "structs": s1,
            "data": {"DS_1": {"cols": ["Id_1", "Me_1"], "rows": [[i, pstr(p)] for i, p in enumerate(periods)]}},
            "expect": {"DS_r": {"key": ["Id_1"], "kinds": {"t" + t: "period" for t in targets}, "rows": rows}}}
    script = "DS_p <- period_indicator(DS_2);"
    expect = {"DS_p": {"key": ["Id_1"], "kinds": {"Id_1": "period"}, "rows": [{"Id_1": pstr(p), "duration_var": ind} for p in periods]}}
    # group-all form: how many fine periods fall into each coarser one (only where nesting is crisp: not from / to weeks,
    # except day -> week)
    gtargets = [t for t in targets if t != ind and (ind != "W") and (t != "W" or ind == "D")]
    for t in gtargets:
        script += ' DS_g%s <- sum(DS_2 group all time_agg("%s"));' % (t, t)
        cnt = {}
        for p in periods:
            q = pstr(next(iter(R.coarser(p, t))))
            cnt[q] = cnt.get(q, 0) + 1
        expect["DS_g" + t] = {"key": ["Id_1"], "kinds": {"Id_1": "period"}, "rows": [{"Id_1": q, "Id_2": "X", "Me_1": c} for q, c in cnt.items()]}
    case2 = {"script": script, "structs": s2,
             "data": {"DS_2": {"cols": ["Id_1", "Id_2", "Me_1"], "rows": [[pstr(p), "X", 1] for p in periods]}}, "expect": expect}
    out = run_and_judge(case)
    out2 = run_and_judge(case2)
    if out[0] == "err" or out2[0] == "err":
        return _tool(rec, "extract %s" % ind, out if out[0] == "err" else out2)
    names = {"y": "getyear", "m": "getmonth", "dm": "dayofmonth", "dy": "dayofyear", "pi": "period_indicator"}
    names.update({"t" + t: "time_agg-to-" + t for t in targets})
    badcols = {}
    for kind, k, col, ov, ev in out[1]["DS_r"]:
        badcols.setdefault(col if kind == "wrong-value" else kind, []).append((k, ov, ev))
    for col, op in names.items():
        nb = len(badcols.get(col, []))
        if len(periods) - nb:
            rec.case((op, ind, "calendar-correct"), "calendar-correct", n=len(periods) - nb)
        if nb:
            rec.case((op, ind, "wrong-value"), "wrong-value", n=nb)
            k, ov, ev = badcols[col][0]
            p = periods[k[0]]
            rec.violation("C08:%s:%s:%s:wrong-value" % (op, ind, LONG[ind][0] if ind in LONG and is_extra(p) else "regular-period"),
                          "%s of %s = %r, calendar says %s (%d rows)" % (op, pstr(p), ov, ev, nb),
                          sub_case(case, "DS_r", {k}, lambda r, i=k[0]: r["Id_1"] == i))
    for kind in ("missing-datapoint", "unexpected-datapoint", "duplicate-identifiers"):
        if kind in badcols:
            rec.violation("C08:calc-on-periods:%s:%s" % (ind, kind), "calc of time extraction operators: %s %s" % (kind, badcols[kind][0][:2]), None)
    for name in expect:
        probs = out2[1][name]
        t = name[-1]
        op = "period_indicator-dataset" if name == "DS_p" else "group-all-time_agg-to-" + t
        rec.case((op, ind, "ok" if not probs else "bad"), "calendar-correct" if not probs else "wrong-result", n=len(expect[name]["rows"]))
        if probs:
            kind, k, col, ov, ev = probs[0]
            stmt = [x for x in script.split("; ") if x.strip().startswith(name + " ")][0].strip().rstrip(";") + ";"
            small = dict(case2, script=stmt, expect={name: expect[name]})
            keep = (lambda r: r["Id_1"] == k[0]) if name == "DS_p" else (
                lambda r: pstr(next(iter(R.coarser(R.parse_period(r["Id_1"]), t)))) == k[0])
            rec.violation("C08:%s:%s:%s" % (op, ind, kind), "%s on the %s calendar: %s at %s: observed %r expected %r (%d problems)" % (
                op, ind, kind, k, ov, ev, len(probs)), sub_case(small, name, {k}, keep))


def w_dates(item, rec):
    """getyear .. dayofyear and time_agg(first / last) on every Date of the range"""
    _, tier, seed = item
    y0, y1 = yrange(tier)
    d, days = dt.date(y0, 1, 1), []
    while d.year <= y1:
        days.append(d)
        d += dt.timedelta(days=1)
    days = harness.seeded_order(days, seed)
    calc = ["y := getyear(Me_1)", "m := getmonth(Me_1)", "dm := dayofmonth(Me_1)", "dy := dayofyear(Me_1)"]
    for t in R.INDICATORS:
        calc += ['f%s := time_agg("%s", _, Me_1, first)' % (t, t), 'l%s := time_agg("%s", _, Me_1, last)' % (t, t)]
    rows = []
    for i, d in enumerate(days):
        row = {"Id_1": i, "y": d.year, "m": d.month, "dm": d.day, "dy": R.day_of_year(d)}
        for t in R.INDICATORS:
            q = R.period_of(t, d)
            row["f" + t], row["l" + t] = R.start_date(q).isoformat(), R.end_date(q).isoformat()
        rows.append(row)
    kinds = {c + t: "date" for t in R.INDICATORS for c in "fl"}
    case = {"script": "DS_r <- DS_1[calc %s];" % ", ".join(calc),
            "structs": harness.structures(harness.structure("DS_1", comps(("Id_1", "Integer", "Identifier"), ("Me_1", "Date", "Measure")))),
            "data": {"DS_1": {"cols": ["Id_1", "Me_1"], "rows": [[i, d.isoformat()] for i, d in enumerate(days)]}},
            "expect": {"DS_r": {"key": ["Id_1"], "kinds": kinds, "rows": rows}}}
    out = run_and_judge(case)
    if out[0] == "err":
        return _tool(rec, "dates", out)
    names = {"y": "getyear", "m": "getmonth", "dm": "dayofmonth", "dy": "dayofyear"}
    for t in R.INDICATORS:
        names["f" + t], names["l" + t] = "time_agg-first-to-" + t, "time_agg-last-to-" + t
    badcols = {}
    for kind, k, col, ov, ev in out[1]["DS_r"]:
        badcols.setdefault(col if kind == "wrong-value" else kind, []).append((k, ov, ev))
    for col, op in names.items():
        nb = len(badcols.get(col, []))
        if len(days) - nb:
            rec.case((op, "Date", "calendar-correct"), "calendar-correct", n=len(days) - nb)
        if nb:
            rec.case((op, "Date", "wrong-value"), "wrong-value", n=nb)
            k, ov, ev = badcols[col][0]
            d = days[k[0]]
            c = "leap-day" if (d.month, d.day) == (2, 29) else "date-in-iso-week-of-other-year" if d.isocalendar()[0] != d.year else "regular-date"
            rec.violation("C08:%s:Date:%s:wrong-value" % (op, c), "%s of %s = %r, calendar says %s (%d rows)" % (op, d, ov, ev, nb),
                          sub_case(case, "DS_r", {k}, lambda r, i=k[0]: r["Id_1"] == i))
    for kind in ("missing-datapoint", "unexpected-datapoint", "duplicate-identifiers"):
        if kind in badcols:
            rec.violation("C08:calc-on-dates:%s" % kind, "calc of time operators on dates: %s %s" % (kind, badcols[kind][0][:2]), None)


def boundary_dates(tier):
    y0, y1 = yrange(tier)
    return [dt.date(y, m, d) for y in range(y0, y1 + 1) for m in range(1, 13) for d in range(28, R.month_days(y, m) + 1)]


def w_dateadd(item, rec):
    """dateadd(d, n, unit) for every n of the shift set (one calc column each) on the month-end dates"""
    _, unit, tier, seed = item
    days = harness.seeded_order(boundary_dates(tier), seed)
    ns = shifts(tier)
    calc = ['c%d := dateadd(Me_1, %d, "%s")' % (j, n, unit) for j, n in enumerate(ns)]
    rows = [dict({"Id_1": i}, **{"c%d" % j: R.add(d, n, unit).isoformat() for j, n in enumerate(ns)}) for i, d in enumerate(days)]
    case = {"script": "DS_r <- DS_1[calc %s];" % ", ".join(calc),
            "structs": harness.structures(harness.structure("DS_1", comps(("Id_1", "Integer", "Identifier"), ("Me_1", "Date", "Measure")))),
            "data": {"DS_1": {"cols": ["Id_1", "Me_1"], "rows": [[i, d.isoformat()] for i, d in enumerate(days)]}},
            "expect": {"DS_r": {"key": ["Id_1"], "kinds": {"c%d" % j: "date" for j in range(len(ns))}, "rows": rows}}}
    out = run_and_judge(case)
    if out[0] == "err":
        return _tool(rec, "dateadd %s" % unit, out)
    bad = {}
    for kind, k, col, ov, ev in out[1]["DS_r"]:
        bad.setdefault(col if kind == "wrong-value" else kind, []).append((k, ov, ev))
    for j, n in enumerate(ns):
        b = bad.get("c%d" % j, [])
        if len(days) - len(b):
            rec.case(("dateadd", unit, n, "calendar-correct"), "calendar-correct", n=len(days) - len(b))
        if b:
            rec.case(("dateadd", unit, n, "wrong-value"), "wrong-value", n=len(b))
            k, ov, ev = b[0]
            d = days[k[0]]
            clipped = unit in "MQSA" and R.add(d, n, unit).day != d.day
            small = dict(case, script='DS_r <- DS_1[calc c%d := dateadd(Me_1, %d, "%s")];' % (j, n, unit))
            small["expect"] = {"DS_r": dict(case["expect"]["DS_r"], rows=[{"Id_1": r["Id_1"], "c%d" % j: r["c%d" % j]} for r in rows])}
            rec.violation("C08:dateadd:%s:%s:wrong-value" % (unit, "day-missing-in-target-month" if clipped else "day-existing-in-target"),
                          'dateadd(%s, %d, "%s") = %r, calendar says %s (%d rows)' % (d, n, unit, ov, ev, len(b)),
                          sub_case(small, "DS_r", {k}, lambda r, i=k[0]: r["Id_1"] == i))
    for kind in ("missing-datapoint", "unexpected-datapoint", "duplicate-identifiers"):
        if kind in bad:
            rec.violation("C08:dateadd:%s:%s" % (unit, kind), "dateadd: %s %s" % (kind, bad[kind][0][:2]), None)


def windows(tier):
    """(indicator, year that ends in the window, periods before the year end, run every pattern on its own?)
    every window runs the 63 patterns packed as 63 series of one dataset; the centred windows additionally run every
    pattern x {one series, two series} as a dataset of its own (quick: only across 2020/21 and 2021/22, which give every
    boundary kind W53->W1, W52->W1, D366->D1, D365->D1, Q4->Q1, M12->M1)"""
    ks = (3,) if tier == "quick" else (1, 2, 3, 4, 5)
    return [(ind, y, k, k == 3 and (tier != "quick" or y in (2020, 2021))) for ind in WINDOW_INDS for y in WINDOW_YEARS for k in ks]


def window_periods(ind, y, k):
    """6 consecutive periods, k of them in year y (its last k periods) and 6 - k in year y + 1"""
    last = (ind, y, R.periods_in_year(ind, y))
    tl = R.Timeline(ind, y - 1, y + 2)
    a = tl.index[last] - (k - 1)
    return tl, tl.items[a:a + 6]


def boundary_kind(ind, y):
    return {"W": "week-%d-to-1", "D": "day-%d-to-1", "Q": "quarter-%d-to-1", "M": "month-%d-to-1"}[ind] % R.periods_in_year(ind, y)


def w_datediff(item, rec):
    """datediff on every ordered pair of the periods of every window (as Time_Period) and of their end dates (as Date)"""
    _, ind, tier, seed = item
    pairs = []
    for (i2, y, k, _) in windows(tier):
        if i2 != ind:
            continue
        _, win = window_periods(ind, y, k)
        pairs += [(a, b) for a in win for b in win]
    pairs = harness.seeded_order(sorted(set(pairs)), seed)
    structs = harness.structures(
        harness.structure("DS_1", comps(("Id_1", "Integer", "Identifier"), ("Me_1", "Time_Period", "Measure"), ("Me_2", "Time_Period", "Measure"))),
        harness.structure("DS_2", comps(("Id_1", "Integer", "Identifier"), ("Me_1", "Date", "Measure"), ("Me_2", "Date", "Measure"))))
    exp = [{"Id_1": i, "Me_3": abs((R.end_date(a) - R.end_date(b)).days)} for i, (a, b) in enumerate(pairs)]
    case = {"script": "DS_r <- DS_1[calc Me_3 := datediff(Me_1, Me_2)]; DS_d <- DS_2[calc Me_3 := datediff(Me_1, Me_2)];", "structs": structs,
            "data": {"DS_1": {"cols": ["Id_1", "Me_1", "Me_2"], "rows": [[i, pstr(a), pstr(b)] for i, (a, b) in enumerate(pairs)]},
                     "DS_2": {"cols": ["Id_1", "Me_1", "Me_2"], "rows": [[i, R.end_date(a).isoformat(), R.end_date(b).isoformat()] for i, (a, b) in enumerate(pairs)]}},
            "expect": {"DS_r": {"key": ["Id_1"], "rows": exp}, "DS_d": {"key": ["Id_1"], "rows": exp}}}
    out = run_and_judge(case)
    if out[0] == "err":
        return _tool(rec, "datediff %s" % ind, out)
    for name, typ in (("DS_r", "Time_Period"), ("DS_d", "Date")):
        probs = [p for p in out[1][name] if p[0] == "wrong-value"] + [p for p in out[1][name] if p[0] != "wrong-value"]
        if len(pairs) - len(probs):
            rec.case(("datediff", typ, ind, "calendar-correct"), "calendar-correct", n=len(pairs) - len(probs))
        if probs:
            rec.case(("datediff", typ, ind, "wrong-value"), "wrong-value", n=len(probs))
            kind, k, col, ov, ev = probs[0]
            a, b = pairs[k[0]]
            rec.violation("C08:datediff:%s:%s:%s:%s" % (typ, ind, "pair-involving-extra-period" if is_extra(a) or is_extra(b) else "regular-pair", kind),
                          "datediff(%s, %s) [%s] = %r, calendar says %s (%d rows)" % (pstr(a), pstr(b), typ, ov, ev, len(probs)),
                          sub_case(case, name, {k}, lambda r, i=k[0]: r["Id_1"] == i))


def series_expect(tl, series):
    """series: {name: {period: value}} -> expectations of the six statements"""
    years = [p[1] for s in series.values() for p in s]
    ymin, ymax = min(years), max(years)
    ind = next(iter(next(iter(series.values()))))[0]
    grid = [p for y in range(ymin, ymax + 1) for p in R.year_periods(ind, y)]
    e = {k: [] for k in ("single", "all", "fts", "stf", "sh1", "shm1")}
    for name, s in series.items():
        ps = sorted(s, key=lambda p: tl.index[p])
        for p in tl.between(ps[0], ps[-1]):
            e["single"].append({"Id_1": name, "Id_2": pstr(p), "Me_1": s.get(p)})
        for p in grid:
            e["all"].append({"Id_1": name, "Id_2": pstr(p), "Me_1": s.get(p)})
        acc, prev = 0, None
        for p in ps:
            acc += s[p]
            e["fts"].append({"Id_1": name, "Id_2": pstr(p), "Me_1": acc})
            e["stf"].append({"Id_1": name, "Id_2": pstr(p), "Me_1": s[p] if prev is None else s[p] - prev})
            prev = s[p]
            e["sh1"].append({"Id_1": name, "Id_2": pstr(tl.shift(p, 1)), "Me_1": s[p]})
            e["shm1"].append({"Id_1": name, "Id_2": pstr(tl.shift(p, -1)), "Me_1": s[p]})
    return e, grid


SERIES_SCRIPT = ("R_single <- fill_time_series(DS_1, single); R_all <- fill_time_series(DS_1, all); R_fts <- flow_to_stock(DS_1); "
                 "R_stf <- stock_to_flow(DS_1); R_sh1 <- timeshift(DS_1, 1); R_shm1 <- timeshift(DS_1, -1);")
SERIES_OPS = {"single": "fill_time_series", "all": "fill_time_series", "fts": "flow_to_stock", "stf": "stock_to_flow",
              "sh1": "timeshift", "shm1": "timeshift"}


def series_case(tl, series):
    structs = harness.structures(harness.structure("DS_1", comps(("Id_1", "String", "Identifier"), ("Id_2", "Time_Period", "Identifier"),
                                                                 ("Me_1", "Integer", "Measure"))))
    e, grid = series_expect(tl, series)
    rows = [[name, pstr(p), v] for name, s in series.items() for p, v in s.items()]
    return {"script": SERIES_SCRIPT, "structs": structs, "data": {"DS_1": {"cols": ["Id_1", "Id_2", "Me_1"], "rows": rows}},
            "expect": {"R_" + k: {"key": ["Id_1", "Id_2"], "kinds": {"Id_2": "period"}, "rows": v} for k, v in e.items()}}, e, grid


def partner(pat):
    q = ((pat << 1) | (pat >> 5)) & 63
    return q if q != pat else pat ^ 0b101010


def w_series(item, rec):
    """one window: every non-empty presence pattern x {one series, two series with different gaps}, plus all 63 patterns
    packed as 63 series"""
    _, ind, y, k, each, tier, seed = item
    tl, win = window_periods(ind, y, k)
    bk = boundary_kind(ind, y)

    def ser(pat, base):
        return {win[j]: base + (j + 1) * (j + 2) for j in range(6) if pat >> j & 1}
    cases = []
    for pat in harness.seeded_order(range(1, 64), seed) if each else ():
        cases.append(("one-series", pat, {"A": ser(pat, 10)}))
        cases.append(("two-series", pat, {"A": ser(pat, 10), "B": ser(partner(pat), 100)}))
    cases.append(("63-series", 0, {"P%02d" % pat: ser(pat, pat * 100) for pat in range(1, 64)}))
    found = {}

    def report(key, what, replay, shape, pat, lost=False):
        rank = (0 if lost else 1, shape == "63-series", shape, pat)
        if key not in found or rank < found[key][0]:
            found[key] = (rank, what, replay)
    for shape, pat, series in cases:
        case, e, grid = series_case(tl, series)
        out = run_and_judge(case)
        if out[0] == "err":
            _tool(rec, "series %s %s %s pattern %d" % (ind, y, shape, pat), out)
            continue
        for kname, op in SERIES_OPS.items():
            probs = out[1]["R_" + kname]
            gaps = sum(1 for r in e[kname] if r["Me_1"] is None)
            if op == "fill_time_series":
                rng = [R.parse_period(r["Id_2"]) for r in e[kname]]
                c = ("filled-range-containing-week-53" if ind == "W" else "filled-range-containing-day-366") if any(
                    is_extra(p) for p in rng) else "filled-range-of-regular-periods"
                nontrivial = gaps > 0
            elif op == "timeshift":
                c = None
                nontrivial = True
            else:
                c = "series-across-%s" % bk
                nontrivial = len(e[kname]) > len(series)     # some series has at least two datapoints
            ck = (op, kname, ind, bk, shape, c if c else "row-classes", "gaps" if gaps else "no-gaps")
            if not probs:
                rec.case(ck + ("calendar-correct",), "calendar-correct", nontrivial=nontrivial)
                continue
            rec.case(ck + ("wrong-result",), "wrong-result", nontrivial=True)
            kind, key, col, ov, ev = probs[0]
            mode = {"single": "single", "all": "all"}.get(kname)
            stmt = [s for s in SERIES_SCRIPT.split("; ") if s.startswith("R_" + kname + " ")][0].rstrip(";") + ";"
            small = dict(case, script=stmt, expect={"R_" + kname: case["expect"]["R_" + kname]})
            if op == "timeshift":
                n = 1 if kname == "sh1" else -1
                for kind, key, col, ov, ev in probs:
                    if kind not in ("missing-datapoint",):
                        continue
                    exp_p = R.parse_period(key[1])
                    src = tl.shift(exp_p, -n)
                    c = LONG[ind][0] if ind in LONG and is_extra(src) else LONG[ind][1] if ind in LONG and (
                        is_extra(exp_p) or any(is_extra(q) for q in tl.between(*sorted((src, exp_p), key=lambda p: tl.index[p])))) \
                        else "regular-period"
                    report("C08:timeshift:%s:%s:wrong-value" % (ind, c),
                           "timeshift(DS, %d) on a series with gaps (%s, pattern %d, window %s): %s of series %s should move to %s "
                           "but that datapoint is missing from the result" % (n, shape, pat, [pstr(p) for p in win], pstr(src), key[0], key[1]),
                           small if shape != "63-series" else None, shape, pat)
                dup = [p for p in probs if p[0] == "duplicate-identifiers"]
                if dup:
                    report("C08:timeshift:%s:%s:duplicate-identifiers" % (ind, "calendar-with-53-week-years" if ind == "W" else
                                                                          "calendar-with-leap-years" if ind == "D" else "any-calendar"),
                           "timeshift(DS, %d) on a series with gaps (%s, pattern %d, window %s): identifiers %s occur %s times" % (
                               n, shape, pat, [pstr(p) for p in win], dup[0][1], dup[0][3]), small if shape != "63-series" else None, shape, pat)
                continue
            lost = [p for p in probs if p[0] == "missing-datapoint" and p[4].get("Me_1") is not None]
            if lost:
                kind, key, col, ov, ev = lost[0]
            report("C08:%s:%s:%s:wrong-result" % (op, ind, c),
                   "%s%s(DS%s) on %s (pattern %d, window %s, series %s): %s at %s: observed %r, calendar says %r (%d deviations)" % (
                       "INPUT DATAPOINT LOST: " if lost else "", op, ", " + mode if mode else "", shape, pat, [pstr(p) for p in win],
                       {n2: [pstr(p) for p in s] for n2, s in list(series.items())[:2]}, kind, key, ov, ev, len(probs)),
                   small if shape != "63-series" else None, shape, pat, bool(lost))
    for key, (rank, what, replay) in sorted(found.items()):
        rec.violation(key, what, replay)


def calibrate():
    """the reference calendar must reproduce the expected values stored in the repository's own tests before it is
    trusted (DESIGN 3, 'calibration before use'); only test DATA is read, nothing is imported -> (points, mismatches)"""
    T = os.path.join(harness.REPO, "tests")
    pts, bad = 0, []

    def val(s):
        s = s.strip()
        m = re.fullmatch(r"(\d{4})-(\d{1,2})-(\d{1,2})", s)
        return dt.date(*map(int, m.groups())) if m else R.parse_period(s)

    def end(v):
        return v if isinstance(v, dt.date) else R.end_date(v)

    def first_month(v):
        return v.month if isinstance(v, dt.date) else R.start_date(v).month
    fn = {"getyear": lambda v: v.year if isinstance(v, dt.date) else v[1], "getmonth": first_month,
          "dayofmonth": lambda v: end(v).day, "dayofyear": lambda v: R.day_of_year(end(v))}

    def check(label, got, want):
        nonlocal pts
        pts += 1
        if got != want:
            bad.append("%s: reference %r, repository test expects %r" % (label, got, want))

    def read(path):
        with open(path, newline="", encoding="utf-8") as f:
            return list(csv.DictReader(f))
    try:
        src = open(os.path.join(T, "NewOperators", "UnaryTime", "test_time_operators.py"), encoding="utf-8").read()
        for op, lit, typ, want in re.findall(r"\('(\w+)\(cast\(\"([^\"/]+)\", ?(date|time_period)\)\)', (\d+)\)", src):
            check("%s(%s)" % (op, lit), fn[op](val(lit)), int(want))
        src = open(os.path.join(T, "NewOperators", "Time", "test_datediff.py"), encoding="utf-8").read()
        for a, ta, b, tb, want in re.findall(r"'datediff\(cast\(\"([^\"]+)\", ?(\w+)\), ?cast\(\"([^\"]+)\", ?(\w+)\)\)', (\d+)\)", src):
            check("datediff(%s, %s)" % (a, b), abs((end(val(a)) - end(val(b))).days), int(want))
        src = open(os.path.join(T, "NewOperators", "Time", "test_new_time.py"), encoding="utf-8").read()
        D = os.path.join(T, "NewOperators", "Time", "data", "DataSet")
        for code, n, unit in re.findall(r"\(\"(\d+)\", 'DS_r := dateadd\(DS_1, (-?\d+), \"([A-Z])\"\);'\)", src):
            exp = {r["Id_1"]: r["Me_1"] for r in read(os.path.join(D, "output", code + "-1.csv"))}
            for r in read(os.path.join(D, "input", code + "-1.csv")):
                if r["Me_1"].strip():
                    check("dateadd(%s, %s, %s)" % (r["Me_1"], n, unit), R.add(end(val(r["Me_1"])), int(n), unit).isoformat(), exp[r["Id_1"]])
        RM = os.path.join(T, "ReferenceManual", "data", "DataSet")
        exp = {(r["Id_1"], r["Id_2"]): r for r in read(os.path.join(RM, "output", "177-DS_r.csv"))}
        for r in read(os.path.join(RM, "input", "177-DS_1.csv")):
            check("RM177 datediff(%s, %s)" % (r["Id_2"], r["Me_1"]), abs((end(val(r["Id_2"])) - end(val(r["Me_1"]))).days),
                  int(exp[(r["Id_1"], r["Id_2"])]["Me_2"]))
        exp = {r["Id_1"]: r for r in read(os.path.join(RM, "output", "178-DS_r.csv"))}
        for r in read(os.path.join(RM, "input", "178-DS_1.csv")):
            check("RM178 dateadd(%s, 2, M)" % r["Me_1"], R.add(val(r["Me_1"]), 2, "M").isoformat(), exp[r["Id_1"]]["Me_2"])
        exp = {r["Id_1"]: r for r in read(os.path.join(RM, "output", "179-DS_r.csv"))}
        for r in read(os.path.join(RM, "input", "179-DS_1.csv")):
            check("RM179 getmonth(%s)" % r["Me_1"], val(r["Me_1"]).month, int(exp[r["Id_1"]]["Me_2"]))
        for code, mode in (("105", "single"), ("106", "all"), ("107", "single"), ("108", "all")):
            series = {}
            for r in read(os.path.join(RM, "input", code + "-DS_1.csv")):
                series.setdefault(r["Id_1"], {})[val(r["Id_2"])] = r["Me_1"]
            want = sorted((r["Id_1"], pstr(val(r["Id_2"])), r["Me_1"] or None) for r in read(os.path.join(RM, "output", code + "-DS_r.csv")))
            got = []
            years = [p[1] for s2 in series.values() for p in s2]
            for name, s2 in series.items():      # the manual's examples mix frequencies in one series: one timeline per indicator
                for ind in sorted({p[0] for p in s2}):
                    sub = {p: v for p, v in s2.items() if p[0] == ind}
                    tl = R.Timeline(ind, min(years) - 1, max(years) + 1)
                    if mode == "single":
                        ps = sorted(sub, key=lambda p: tl.index[p])
                        grid = tl.between(ps[0], ps[-1])
                    else:
                        grid = [p for y in range(min(years), max(years) + 1) for p in R.year_periods(ind, y)]
                    got += [(name, pstr(p), sub.get(p)) for p in grid]
            check("RM%s fill_time_series(%s)" % (code, mode), sorted(got), want)
        for code, n in (("119", 1), ("120", -1)):
            rows = read(os.path.join(RM, "input", code + "-DS_1.csv"))
            if rows and re.fullmatch(r"\d{4}([A-Z]\d+)?", rows[0]["Id_2"]):
                want = sorted((r["Id_1"], pstr(val(r["Id_2"])), r["Me_1"]) for r in read(os.path.join(RM, "output", code + "-DS_r.csv")))
                got = sorted((r["Id_1"], pstr(R.Timeline(val(r["Id_2"])[0], 2000, 2020).shift(val(r["Id_2"]), n)), r["Me_1"]) for r in rows)
                check("RM%s timeshift(%d)" % (code, n), got, want)
    except (OSError, KeyError, AttributeError, ValueError) as e:
        bad.append("calibration data not readable: %s: %s" % (type(e).__name__, e))
    return pts, bad


WORKERS = {"shift": w_shift, "extract": w_extract, "dates": w_dates, "dateadd": w_dateadd, "datediff": w_datediff, "series": w_series}


def _dispatch(item, rec):
    WORKERS[item[0]](item, rec)


class Check:
    ID = "C08"
    LEVEL = "exploration"
    RULE = ("every period of every indicator of every year of the range (quick 1995-2030, thorough 1900-2100) x every shift of "
            "the shift set (quick 11 values, thorough -60..60) for timeshift (+ round trip + uniqueness of the shifted "
            "identifiers); the same calendars x {getyear, getmonth, dayofmonth, dayofyear, period_indicator, time_agg to every "
            "coarser indicator, group-all time_agg counts}; every Date of the range x {4 extractors, time_agg first/last to 6 "
            "indicators}; month-end dates 28..31 x shift set x 6 units for dateadd; all ordered pairs of every 6-period window "
            "for datediff (Time_Period and Date); windows (4 indicators x 5 year ends x placements: quick 1, thorough 5) with the 63 "
            "presence patterns packed as 63 series, and for the centred windows (quick: year ends 2020/21, 2021/22; thorough: all "
            "5) every pattern x {one series, two series} as a dataset of its own, x {fill single, fill all, flow_to_stock, "
            "stock_to_flow, timeshift +1, -1}. A case = one (row, operator) or one (window, pattern, shape, operator). distinct = "
            "(operator, indicator, shift / unit / boundary kind / shape, calendar class of the row, outcome). non-trivial: all "
            "row cases; a fill case only if a gap was filled, a flow/stock case only if some series has two datapoints.")
    ASSUMPTIONS = [
        "conventions calibrated on the repository's own tests (tests/NewOperators/UnaryTime, tests/NewOperators/Time, "
        "ReferenceManual RM101-108, RM177-179, tests/DateTime): for a Time_Period getmonth = month of the first day, "
        "dayofmonth / dayofyear / datediff = taken on the last day of the period (dayofyear of a day period = its number); "
        "fill_time_series(all) fills whole years from period 1 of the smallest year to the last period of the largest year of "
        "the dataset, (single) from the first to the last datapoint of each series; stock_to_flow subtracts the previous "
        "datapoint of the series",
        "a week is not nested in months / quarters / semesters / calendar years: for week periods getyear, getmonth, dayofmonth, "
        "dayofyear and time_agg to a coarser indicator accept the value taken at either end of the week; group-all time_agg "
        "counts are not checked from or to weeks except day -> week",
        "dateadd with M / Q / S / A keeps the day of month and clips it to the last day of the target month (RM178: "
        "2020-12-31 + 2 M = 2021-02-28); D and W are exact day arithmetic",
        "timeshift on Date identifiers (frequency inference) and time operators on Time (interval) values are not covered",
        "datasets of the time-series part always have a second identifier (the series name)",
    ]

    def run(self, tier, seed, rec):
        harness.boot()
        assert R.selftest()
        pts, miscal = calibrate()
        rec.count("oracle_calibration_points", pts)
        if miscal or pts < 100:
            rec.tool_error("oracle not calibrated (%d points): %s" % (pts, miscal[:3]))
            return {"exhaustive": False}
        items = [("shift", ind, n, tier, seed) for ind in R.INDICATORS for n in shifts(tier)]
        items += [("extract", ind, tier, seed) for ind in R.INDICATORS]
        items += [("dates", tier, seed)]
        items += [("dateadd", u, tier, seed) for u in UNITS]
        items += [("datediff", ind, tier, seed) for ind in WINDOW_INDS]
        items += [("series", ind, y, k, each, tier, seed) for ind, y, k, each in windows(tier)]
        heavy = [i for i in items if i[1] == "D" or i[0] in ("dates", "dateadd")]
        light = [i for i in items if i not in heavy]
        harness.pmap(_dispatch, harness.seeded_order(heavy, seed) + harness.seeded_order(light, seed), rec)
        rec.violations.sort(key=lambda v: (v["key"], not v["what"].startswith("INPUT DATAPOINT LOST"), v["replay"] is None, v["what"]))
        y0, y1 = yrange(tier)
        long_w = [y for y in range(y0, y1 + 1) if R.iso_weeks(y) == 53]
        leap = [y for y in range(y0, y1 + 1) if R.is_leap(y)]
        if not long_w or not leap or not rec.counters.get("extra_periods_expected_in_shift_outputs"):
            rec.tool_error("no 53-week year / leap year / extra period was exercised")
        return {"exhaustive": True, "traces_validated_against_impl": pts, "years": [y0, y1], "shifts": shifts(tier),
                "windows": len(windows(tier)),
                "windows_with_one_dataset_per_pattern": sum(1 for w in windows(tier) if w[3]),
                "periods_per_indicator": {i: sum(R.periods_in_year(i, y) for y in range(y0, y1 + 1)) for i in R.INDICATORS},
                "53_week_years": long_w, "leap_years": len(leap)}

    def replay(self, data):
        harness.boot()
        out = run_and_judge(data)
        if out[0] == "err":
            print("replay: engine error", out[1:])
            return True
        for name, probs in out[1].items():
            for p in probs[:3]:
                print("replay:", name, p)
        return any(out[1].values())

"""C11 — semantic type rules follow the documented implicit-cast table.

Complete enumeration of the finite space {operator class} x {operand types}^n x {level}:

  (a0) the engine's IMPLICIT_TYPE_PROMOTION_MAPPING against the table of docs/data_types.rst, cell by cell;
  (a)  for EVERY subclass of Operators.Binary / Operators.Unary (found by introspection, registered or not):
       direct calls of cls.type_validation / cls.validate_type_compatibility and of the four promotion
       functions with every distinct (type_to_check, return_type) signature, all 9x9 pairs / 9 operands;
  (b)  semantic_analysis() of a generated script with typed scalar operands (Null = the literal null);
  (c)  component operands inside calc / aggr (a Null component is produced by ``calc Me := null``);
  (d)  mono-measure dataset operands; hierarchy / check_hierarchy for the HR_* registries;
  thorough adds the mixed levels (component x scalar, dataset x scalar, both orders) and the
  parameterised / ternary operators over all 9^3 triples.

Script forms are found by asking the parser which spelling of a registry token yields the expected AST
node, so an operator added to a registry is covered without touching this file.

Oracle O2: the implicit table parsed from docs/data_types.rst at run time (+ "Null is compatible with
every type"), plus three table-free invariants (check <=> promotion, symmetry for commutative operators,
agreement of the levels).
"""
import itertools
import os

from vtlmc import c11_model as M
from vtlmc import harness

COMMUTATIVE = {"+", "*", "=", "<>", "and", "or", "xor"}
ARITY_WORD = {1: "unary", 2: "binary", 3: "ternary", 4: "param"}
AST_NODE = {"BINARY_MAPPING": "BinOp", "UNARY_MAPPING": "UnaryOp", "AGGREGATION_MAPPING": "Aggregation",
            "ANALYTIC_MAPPING": "Analytic"}
HR_REGS = ("HR_COMP_MAPPING", "HR_NUM_BINARY_MAPPING", "HR_UNARY_MAPPING")
UNTYPED_REGS = ("JOIN_MAPPING", "REGULAR_AGGREGATION_MAPPING", "ROLE_SETTER_MAPPING", "SET_MAPPING")
CANDIDATES = {      # (kind of the last operand, template, expression shown to the parser)
    "BinOp": [("v", "{0} TOK {1}", "a TOK {1}"), ("x", "{0} TOK {1}", "a TOK b"), ("x", "TOK({0}, {1})", "TOK(a, b)")],
    "UnaryOp": [("x", "TOK({0})", "TOK(a)"), ("x", "TOK {0}", "TOK a")],
    "Aggregation": [("x", "TOK({0} group by Id_1)", "TOK(a group by Id_1)")],
    "Analytic": [("x", "TOK({0}, 1 over (partition by Id_1 order by Id_2))", "TOK(a, 1 over (partition by Id_1 order by Id_2))"),
                 ("x", "TOK({0} over (partition by Id_1 order by Id_2))", "TOK(a over (partition by Id_1 order by Id_2))"),
                 ("x", "TOK({0} over (partition by Id_1))", "TOK(a over (partition by Id_1))")],
}

# Hand-written parameter signatures of the operators that are NOT described by one (type_to_check,
# return_type) pair (VTL 2.1 reference manual); 'adm' = per position the set of admitted types (None = any).
SPECS = [
    dict(id="param:between", cls="Comparison.Between", n=3, template="between({0}, {1}, {2})", rule="pairwise", rt="Boolean",
         levels=["sss", "ccc", "css", "dss"]),
    dict(id="param:if", cls="Conditional.If", n=3, template="if {0} then {1} else {2}", rule="cond", rt=None,
         levels=["sss", "ccc", "ddd"]),
    dict(id="param:case", cls="Conditional.Case", n=3, template="case when {0} then {1} else {2}", rule="cond", rt=None,
         levels=["sss", "ccc", "ddd"]),
    dict(id="param:substr", cls="String.Substr", n=3, template="substr({0}, {1}, {2})", rule="params",
         adm=[{"String"}, {"Integer"}, {"Integer"}], rt="String", levels=["sss", "ccc", "css", "dss"]),
    dict(id="param:replace", cls="String.Replace", n=3, template="replace({0}, {1}, {2})", rule="params",
         adm=[{"String"}, {"String"}, {"String"}], rt="String", levels=["sss", "ccc", "css", "dss"]),
    dict(id="param:instr", cls="String.Instr", n=3, template="instr({0}, {1}, {2})", rule="params",
         adm=[{"String"}, {"String"}, {"Integer"}], rt="Integer", levels=["sss", "ccc", "css", "dss"]),
    dict(id="param:instr4", cls="String.Instr", n=2, template="instr({0}, \"a\", 1, {1})", rule="params",
         adm=[{"String"}, {"Integer"}], rt="Integer", levels=["ss", "cc", "cs", "ds"]),
    dict(id="param:round", cls="Numeric.Round", n=2, template="round({0}, {1})", rule="params", family="Numeric.Parameterized[numDigit]",
         adm=[{"Number"}, {"Integer"}], rt=None, check_result=False, levels=["ss", "cc", "cs", "ds"]),
    dict(id="param:trunc", cls="Numeric.Trunc", n=2, template="trunc({0}, {1})", rule="params", family="Numeric.Parameterized[numDigit]",
         adm=[{"Number"}, {"Integer"}], rt=None, check_result=False, levels=["ss", "cc", "cs", "ds"]),
    dict(id="param:round1", cls="Numeric.Round", n=1, template="round({0})", rule="params",
         adm=[{"Number"}], rt=None, check_result=False, levels=["s", "c", "d"]),
    dict(id="param:trunc1", cls="Numeric.Trunc", n=1, template="trunc({0})", rule="params",
         adm=[{"Number"}], rt=None, check_result=False, levels=["s", "c", "d"]),
    dict(id="param:dateadd", cls="Time.Date_Add", n=3, template="dateadd({0}, {1}, {2})", rule="params",
         adm=[{"Date", "Time_Period"}, {"Integer"}, {"String"}], rt=None, check_result=False, levels=["sss", "css", "dss"]),
]

_CACHE = {}


def ctx():
    """per-process: doc table, code table, type maps"""
    if "tab" not in _CACHE:
        harness.boot()
        import vtlengine.DataTypes as DT
        tab = M.parse_doc_table()
        fwd, rev = M.engine_types()
        promo = {}
        for cls, s in DT.IMPLICIT_TYPE_PROMOTION_MAPPING.items():
            promo[M.tname(cls, rev)] = frozenset(M.tname(x, rev) for x in s)
        tabc = M.DocTable(list(tab.types), promo, set(tab.subtype), [], [])
        _CACHE.update(tab=tab, tabc=tabc, fwd=fwd, rev=rev)
    return _CACHE["tab"], _CACHE["tabc"], _CACHE["fwd"], _CACHE["rev"]


# ------------------------------------------------------------------------------------------------
# expectations
# ------------------------------------------------------------------------------------------------

def expectation(tab, form, types):
    """-> (accept? | None when the table says nothing, set of admissible result types | None = unchecked)"""
    rule = form.get("rule")
    if rule is None:
        if form["mode"] == "untyped":
            return None, None
        if form["arity"] == 2:
            return M.expect_binary(tab, tuple(form["sig"]), types[0], types[1])
        return M.expect_unary(tab, tuple(form["sig"]), types[0])
    res = {form["rt"]} if form.get("rt") else None
    if rule == "params":
        ok = all(a is None or (tab.P(t) & set(a)) for a, t in zip(form["adm"], types))
        return bool(ok), (res if ok and form.get("check_result", True) else None)
    if rule == "pairwise":
        ok = bool(tab.P(types[0]) & tab.P(types[1])) and bool(tab.P(types[0]) & tab.P(types[2]))
        return ok, (res if ok else None)
    if rule == "cond":
        ok = "Boolean" in tab.P(types[0]) and bool(tab.P(types[1]) & tab.P(types[2]))
        return ok, (M.join_type(tab, types[1], types[2]) if ok else None)
    raise ValueError(rule)


def proj(tab, tuples):
    order = {t: i for i, t in enumerate(tab.all_types)}
    out = []
    for i in range(len(tuples[0])):
        s = sorted({t[i] for t in tuples}, key=lambda x: order.get(x, 99))
        out.append("any" if len(s) == len(tab.all_types) else "|".join(s) if len(s) <= 4 else "%dtypes" % len(s))
    return "x".join(out)


# ------------------------------------------------------------------------------------------------
# operator discovery
# ------------------------------------------------------------------------------------------------

def class_info(cls, rev, names=("validate", "type_validation", "validate_type_compatibility")):
    import vtlengine.Operators as OP
    ar = M.arity(cls)
    sig = M.signature(cls, rev)
    if ar == 0:
        return dict(cls=M.cls_label(cls), arity=0, sig=sig, mode="untyped", family="%s[untyped]" % M.cls_label(cls))
    base = OP.Binary if ar == 2 else OP.Unary
    owner = None
    for k in cls.__mro__:
        if k is base:
            break
        if any(n in vars(k) for n in names):
            owner = k          # the most basic class below the base that overrides the validation path
    if owner is None:
        fam = "%s[%s]" % (base.__name__, M.sig_label(sig))
        mode = "standard"
    else:
        fam = "%s[%s]" % (M.cls_label(owner), M.sig_label(sig))
        mode = "custom"
    return dict(cls=M.cls_label(cls), arity=ar, sig=sig, mode=mode, family=fam)


def _ast_has(node, typ, op, depth=0):
    import vtlengine.AST as AST
    if type(node).__name__ == typ and getattr(node, "op", None) == op:
        return True
    if depth > 8 or not hasattr(node, "__dict__"):
        return False
    for v in vars(node).values():
        for x in (v if isinstance(v, list) else [v]):
            if isinstance(x, AST.AST) and _ast_has(x, typ, op, depth + 1):
                return True
    return False


def _parses_as(expr, typ, op):
    from vtlengine.API import create_ast
    for script in ("r := %s;" % expr, "r := DS_1[calc x := %s];" % expr):
        try:
            tree = create_ast(script)
        except Exception:
            continue
        if _ast_has(tree, typ, op):
            return True
    return False


def discover_forms(tier, rec):
    tab, tabc, fwd, rev = ctx()
    forms, unrendered = [], []
    regs = M.registries()
    for reg, mapping in sorted(regs.items()):
        for tok, cls in sorted(mapping.items(), key=lambda kv: str(kv[0])):
            info = class_info(cls, rev)
            fid = "%s:%s" % (reg.replace("_MAPPING", ""), tok)
            if reg in UNTYPED_REGS:
                rec.case(("no-type-signature", fid), "no-type-signature", nontrivial=False)
                continue
            form = dict(info, id=fid, token=str(tok), commutative=(str(tok) in COMMUTATIVE and reg == "BINARY_MAPPING"))
            if reg in HR_REGS:
                if reg == "HR_COMP_MAPPING":
                    rule = "A %s B + C" % tok
                elif reg == "HR_NUM_BINARY_MAPPING":
                    rule = "A = B %s C" % tok
                else:
                    rule = "A = %s B" % tok
                pre = "define hierarchical ruleset hr (variable rule Id_2) is %s end hierarchical ruleset; " % rule
                form.update(arity=1, mode="spec", rule="params", adm=[{"Number"}], rt=None, check_result=False, n=1,
                            family="hierarchy:%s[Number measure]" % info["cls"],
                            levels=[dict(label="hierarchy", kinds="h", template=pre + "r := hierarchy({0}, hr rule Id_2);"),
                                    dict(label="check_hierarchy", kinds="h", template=pre + "r := check_hierarchy({0}, hr rule Id_2);")])
                forms.append(form)
                continue
            node = AST_NODE.get(reg)
            if node is None:
                unrendered.append(fid + " (registry not known to the renderer)")
                continue
            found = None
            for kind, cand, probe in CANDIDATES[node]:
                if _parses_as(probe.replace("TOK", str(tok)), node, tok):
                    found = (kind, cand.replace("TOK", str(tok)))
                    break
            if found is None:
                unrendered.append(fid)
                rec.case(("no-script-form", fid), "no-script-form", nontrivial=False)
                continue
            kind, tmpl = found
            n = 2 if node == "BinOp" else 1
            form["n"] = n
            if node == "BinOp":
                second = "v" if kind == "v" else None
                base = [("s", "s"), ("c", "c"), ("d", "d")]
                if not second:
                    base += [("e", "d"), ("d", "e")]      # one operand with fewer identifiers: the result is built from the other one
                if tier == "thorough" and not second:
                    base += [("c", "s"), ("s", "c"), ("d", "s"), ("s", "d")]
                form["levels"] = [dict(label=a + (second or b), kinds=a + (second or b), template=tmpl) for a, b in base]
            elif node == "UnaryOp":
                form["levels"] = [dict(label=k, kinds=k, template=tmpl) for k in "scd"]
            elif node == "Aggregation":
                plain = tmpl.replace(" group by Id_1", "")
                form["levels"] = [dict(label="s", kinds="s", template=plain), dict(label="d", kinds="d", template=tmpl),
                                  dict(label="c", kinds="c", template=plain, cwrap="[aggr x := {e} group by Id_1]")]
            else:
                form["levels"] = [dict(label="s", kinds="s", template=tmpl), dict(label="d", kinds="d", template=tmpl),
                                  dict(label="c", kinds="c", template=tmpl)]
            if form["arity"] not in (n,):
                form["mode"] = "untyped"       # registered under a binary/unary token but not an Operators.Binary/Unary
                form["arity"] = n
            forms.append(form)
    # string_distance variants: registered in DISTANCE_DISPATCH (a dict of method name -> class)
    try:
        from vtlengine.Operators.String import DISTANCE_DISPATCH
        for meth, cls in sorted(DISTANCE_DISPATCH.items()):
            info = class_info(cls, rev)
            tmpl = "string_distance(%s, {0}, {1})" % meth
            lv = [("s", "s"), ("c", "c"), ("d", "d")] + ([("c", "s"), ("d", "s")] if tier == "thorough" else [])
            forms.append(dict(info, id="DISTANCE:%s" % meth, token=meth, commutative=False, n=2,
                              levels=[dict(label=a + b, kinds=a + b, template=tmpl) for a, b in lv]))
    except ImportError:
        pass
    if tier == "thorough":
        for sp in SPECS:
            f = dict(sp)
            f.update(arity=sp["n"], mode="spec", sig=(None, sp.get("rt")), token=sp["id"].split(":")[1], commutative=False,
                     family=sp.get("family") or "%s[%s]" % (sp["cls"], sp["id"].split(":")[1]),
                     levels=[dict(label=k, kinds=k, template=sp["template"]) for k in sp["levels"]])
            forms.append(f)
    for f in forms:
        if "adm" in f:
            f["adm"] = [sorted(a) if a is not None else None for a in f["adm"]]
    return forms, unrendered


# ------------------------------------------------------------------------------------------------
# evaluating one form (runs inside a worker)
# ------------------------------------------------------------------------------------------------

class Findings:
    """collects deviations of one form and emits one violation per (family, kind, set of failing operand types)"""

    def __init__(self, tab, form, flags=None):
        self.tab, self.form, self.items = tab, form, {}
        self.flags = set() if flags is None else flags      # (level, operand types) already reported

    def add(self, kind, level, types, detail, replay):
        self.items.setdefault((kind, level), []).append((tuple(types), detail, replay))
        self.flags.add((level, tuple(types)))

    def flagged(self, level, types):
        return (level, tuple(types)) in self.flags

    def emit(self, rec):
        bykey = {}
        for (kind, level), lst in sorted(self.items.items()):
            lst.sort(key=lambda x: x[0])
            key = "C11:%s:%s:%s:%s" % (ARITY_WORD.get(self.form["arity"], "param"), self.form["family"],
                                       proj(self.tab, [t for t, _, _ in lst]), kind)
            bykey.setdefault(key, []).append((level, lst))
        for key, groups in sorted(bykey.items()):
            level, lst = groups[0]
            n = sum(len(x) for _, x in groups)
            ex = "; ".join("[%s] %s" % (lv, d) for lv, x in groups for _, d, _ in x[:3])[:1500]
            rec.violation(key, "%s (%s, class %s): %d failing (level, operand types) combinations at level(s) %s. %s" % (
                self.form["id"], self.form["family"], self.form["cls"], n, ",".join(lv for lv, _ in groups), ex), lst[0][2])


def form_replay(form):
    keep = ("id", "arity", "sig", "mode", "rule", "adm", "rt", "check_result", "family", "cls")
    return {k: form[k] for k in keep if k in form}


def eval_form(item, rec):
    tab, tabc, fwd, rev = ctx()
    form, tuples = item["form"], [tuple(t) for t in item["tuples"]]
    drift = any(tab.P(t) != tabc.P(t) for t in tab.all_types)
    import vtlengine.DataTypes as DT
    F = Findings(tab, form)
    FA = Findings(tab, form, F.flags)
    obs, cases = {}, {}
    for lv in form["levels"]:
        o = obs[lv["label"]] = {}
        for tp in tuples:
            case = M.build_case(lv["kinds"], lv["template"], tp, lv.get("cwrap", M.CWRAP_CALC))
            cases[(lv["label"], tp)] = case
            o[tp] = M.observe(M.run_case(case), case["where"], rev)
    applicable = {lab: any(v[0] == "ok" for v in o.values()) for lab, o in obs.items()}
    full = form["mode"] in ("standard", "spec")
    for lab, o in obs.items():
        app = applicable[lab] or (form["mode"] == "standard")
        if applicable[lab]:
            rec.count("level_applicable_%s" % lab)
        else:
            rec.count("form_levels_not_applicable")      # e.g. a dataset-only operator given scalars (cases kept as trivial)
        for tp, ob in o.items():
            acc = ob[0] == "ok"
            rec.case((form["id"], lab, tp, "accept" if acc else "reject"), ("accept" if acc else "reject:" + str(ob[1])) if app else "level-n/a",
                     nontrivial=app, sample={"form": form["id"], "level": lab, "types": list(tp), "script": cases[(lab, tp)]["script"],
                                             "observed": list(ob)} if acc and lab != "s" else None)
            if not app:
                continue
            exp_acc, exp_res = expectation(tab, form, tp)
            rp = {"relation": "expect", "form": form_replay(form), "types": list(tp), "cases": [cases[(lab, tp)]]}
            dev = None
            if exp_acc is not None:
                if acc and not exp_acc:
                    dev = ("accepted-but-table-rejects", "%s accepted %s -> %s, the table gives no admitted common type" % (
                        cases[(lab, tp)]["script"], "x".join(tp), ob[1]))
                elif not acc and exp_acc and full:
                    dev = ("rejected-but-table-accepts", "%s rejected %s with %s, the table admits it (result %s)" % (
                        cases[(lab, tp)]["script"], "x".join(tp), ob[1], sorted(exp_res) if exp_res else "?"))
                elif acc and exp_acc and exp_res is not None and ob[1] not in exp_res:
                    dev = ("result-type-differs", "%s on %s gives %s, documented result %s" % (
                        cases[(lab, tp)]["script"], "x".join(tp), ob[1], "|".join(sorted(exp_res))))
            if dev and drift:
                c_acc, c_res = expectation(tabc, form, tp)
                if c_acc is not None and c_acc == acc and (not acc or c_res is None or ob[1] in c_res):
                    rec.count("deviations_explained_by_table_drift")     # root cause reported once, by level (a0)
                    dev = None
            if dev and dev[0] == "result-type-differs":
                pair = (0, 1) if form.get("rule") is None and form["arity"] == 2 else (1, 2) if form.get("rule") == "cond" else None
                if pair:
                    psig = tuple(form["sig"]) if form.get("rule") is None else (None, None)
                    l, r = tp[pair[0]], tp[pair[1]]
                    pr = direct(DT.binary_implicit_promotion, fwd[l], fwd[r], *[fwd[x] if x else None for x in psig])
                    if pr[0] == "ok" and M.tname(pr[1], rev) == ob[1]:
                        # the script only shows what binary_implicit_promotion computes: same root cause, same key as level (a)
                        FA.form = dict(arity=2, family="Binary[%s]" % M.sig_label(psig), id=form["id"], cls=form["cls"])
                        FA.add(dev[0], lab, (l, r), dev[1] + " (= binary_implicit_promotion(%s, %s; %s))" % (l, r, M.sig_label(psig)), rp)
                        F.flags.add((lab, tp))
                        dev = None
            if dev:
                F.add(dev[0], lab, tp, dev[1], rp)
    # closure under the table for operators with their own validation: S -> T implicit and T accepted => S accepted
    if not full:
        for lab, o in obs.items():
            if not applicable[lab]:
                continue
            for tp, ob in o.items():
                if ob[0] != "ok":
                    continue
                for i, t in enumerate(tp):
                    for s in tab.all_types:
                        if s == t or t not in tab.P(s):
                            continue
                        tp2 = tp[:i] + (s,) + tp[i + 1:]
                        if tp2 in o and o[tp2][0] != "ok" and not F.flagged(lab, tp2):
                            F.add("rejected-but-table-accepts", lab, tp2,
                                  "%s rejected %s with %s although %s is accepted and %s is implicitly promoted to %s" % (
                                      cases[(lab, tp2)]["script"], "x".join(tp2), o[tp2][1], "x".join(tp), s, t),
                                  {"relation": "closure", "form": form_replay(form), "types": list(tp2),
                                   "cases": [cases[(lab, tp)], cases[(lab, tp2)]]})
    # invariant: the levels agree on accept / reject
    labs = [lab for lab in obs if applicable[lab] or form["mode"] == "standard"]
    for tp in tuples:
        accs = {lab: obs[lab][tp][0] == "ok" for lab in labs if tp in obs[lab]}
        if len(set(accs.values())) > 1 and not any(F.flagged(lab, tp) for lab in accs):
            yes = sorted(lab for lab, a in accs.items() if a)
            no = sorted(lab for lab, a in accs.items() if not a)
            F.add("levels-disagree:%s-accept:%s-reject" % ("+".join(yes), "+".join(no)), "*", tp,
                  "%s is accepted at %s (%s) but rejected at %s (%s: %s)" % ("x".join(tp), yes, cases[(yes[0], tp)]["script"], no,
                                                                           cases[(no[0], tp)]["script"], obs[no[0]][tp][1]),
                  {"relation": "same-accept", "form": form_replay(form), "types": list(tp), "cases": [cases[(yes[0], tp)], cases[(no[0], tp)]]})
    # invariant: symmetry for commutative operators
    if form.get("commutative") and form.get("n") == 2:
        for lab, o in obs.items():
            if not applicable[lab] or len(set(lab)) > 1:
                continue
            for (l, r), ob in o.items():
                if (l, r) >= (r, l) or (r, l) not in o:
                    continue
                ob2 = o[(r, l)]
                rec.case((form["id"], lab, "sym", (l, r)), "symmetry-checked")
                if ob[:2] != ob2[:2] and ob[0] == ob2[0] == "ok" and not (F.flagged(lab, (l, r)) or F.flagged(lab, (r, l))):
                    F.add("result-type-asymmetric", lab, (l, r), "%s gives %s, the swapped operands give %s" % (
                        cases[(lab, (l, r))]["script"], ob[1], ob2[1]),
                          {"relation": "same-result", "form": form_replay(form), "types": [l, r], "cases": [cases[(lab, (l, r))], cases[(lab, (r, l))]]})
                elif (ob[0] == "ok") != (ob2[0] == "ok") and not (F.flagged(lab, (l, r)) or F.flagged(lab, (r, l))):
                    F.add("acceptance-asymmetric", lab, (l, r), "%s: %s, swapped operands: %s" % (cases[(lab, (l, r))]["script"], ob, ob2),
                          {"relation": "same-accept-sym", "form": form_replay(form), "types": [l, r], "cases": [cases[(lab, (l, r))], cases[(lab, (r, l))]]})
    F.emit(rec)
    FA.emit(rec)
    rec.count("forms_evaluated_parts")


# ------------------------------------------------------------------------------------------------
# level (a): direct calls
# ------------------------------------------------------------------------------------------------


# ------------------------------------------------------------------------------------------------
# history independence: the type rule of an operator must not depend on what was analysed before
# ------------------------------------------------------------------------------------------------

HISTORY_SCRIPTS = [
    "r := round(DS_N, 1);", "r := trunc(DS_N, 2);", "r := DS_N[calc x := round(Me_1, 2), y := trunc(Me_1, 1)];", "r := round(3.7, 1); q := trunc(3.7, 1);",
    "r := DS_N[calc x := log(Me_1, 2), y := power(Me_1, 2), z := mod(Me_1, 3)];", "r := log(DS_N, 2); q := power(DS_N, 2); w := mod(DS_N, 3);",
    "r := DS_S[calc x := substr(Me_1, 1, 2), y := instr(Me_1, \"a\", 1, 1), z := replace(Me_1, \"a\", \"b\")];", "r := substr(DS_S, 2); q := replace(DS_S, \"a\", \"b\");",
    "r := DS_N[calc x := nvl(Me_1, 0), y := if Me_1 > 0 then 1 else 2, z := between(Me_1, 0, 5)];", "r := nvl(DS_N, 0);",
    "r := cast(DS_N, integer); q := cast(DS_N, string); w := DS_N[calc x := cast(Me_1, boolean)];",
    "r := DS_D[calc x := dateadd(Me_1, 1, \"M\"), y := getyear(Me_1), z := datediff(Me_1, Me_1)];", "r := DS_N[calc x := random(Me_1, 2)];",
    "r := sum(DS_N group by Id_1); q := count(DS_N group by Id_1); w := DS_N[aggr x := avg(Me_1) group by Id_1];",
    "r := DS_N[calc x := rank(over (order by Id_1)), y := sum(Me_1 over (order by Id_1))];",
]


def history_item(item, rec):
    """runs in its own freshly forked worker: probes, then a history of other analyses, then the same probes again"""
    tab, tabc, fwd, rev = ctx()
    V = harness.boot()
    forms = item
    probes = []
    for f in forms:
        if f.get("n", 9) > 2:
            continue
        for lv in f["levels"]:
            if set(lv["kinds"]) - set("scd"):
                continue
            for t in ("Number", "Integer", "String"):
                if t in tab.all_types:
                    probes.append((f["id"], lv["label"], M.build_case(lv["kinds"], lv["template"], (t,) * f["n"], lv.get("cwrap", M.CWRAP_CALC))))

    # operand-only forms first: their first observation is taken before any parameterised form has been analysed
    order = {f["id"]: f["n"] for f in forms}
    probes.sort(key=lambda p: (order[p[0]], p[0], p[1]))

    def observe_all():
        return [M.observe(M.run_case(c), c["where"], rev) for _, _, c in probes]
    first = observe_all()
    H = harness
    structs = H.structures(
        H.structure("DS_N", [H.comp("Id_1", "Integer", "Identifier"), H.comp("Me_1", "Number", "Measure")]),
        H.structure("DS_S", [H.comp("Id_1", "Integer", "Identifier"), H.comp("Me_1", "String", "Measure")]),
        H.structure("DS_D", [H.comp("Id_1", "Integer", "Identifier"), H.comp("Me_1", "Date", "Measure")]))
    ran = 0
    for sc in HISTORY_SCRIPTS:
        out = harness.call(V.semantic_analysis, sc, structs)
        ran += out[0] == "ok"
    if ran < len(HISTORY_SCRIPTS) // 2:
        rec.tool_error("history scripts mostly rejected (%d of %d accepted): the history space is not exercised" % (ran, len(HISTORY_SCRIPTS)))
    second = observe_all()
    for (fid, lab, case), a, b in zip(probes, first, second):
        same = list(a) == list(b)
        rec.case(("history", fid, lab, same), "history-independent" if same else "history-dependent", nontrivial=a[0] == "ok")
        if not same:
            rec.violation("C11:history:%s:type-rule-depends-on-earlier-analyses" % fid,
                          "%s at level %s: %r first analysed as %s, after analysing other scripts (parameterised round/trunc/log/substr/cast/...) as %s" % (
                              fid, lab, case["script"], list(a), list(b)), {"relation": "history", "form_id": fid})


def direct(fn, *a):
    out = harness.call(fn, *a)
    if out[0] == "ok":
        return ("ok", out[1])
    return ("rej", out[3] or ("raw:" + out[2]))


def level_a(rec, seed):
    import vtlengine.DataTypes as DT
    tab, tabc, fwd, rev = ctx()
    T = tab.all_types
    drift = any(tab.P(t) != tabc.P(t) for t in T)
    # (a0) the code's table against the documented one
    for a in T:
        for b in T:
            code = b in tabc.P(a) if a in tabc.promo else None
            doc = b in tab.P(a)
            rec.case(("table", a, b, code), "table-cell-%s" % ("yes" if code else "no"))
            if code != doc:
                kind = "code-allows-docs-forbid" if code else "docs-allow-code-forbids"
                rec.violation("C11:table:%s->%s:%s" % (a, b, kind),
                              "IMPLICIT_TYPE_PROMOTION_MAPPING[%s] %s %s but the implicit table of docs/data_types.rst says %s" % (
                                  a, "contains" if code else "does not contain", b, "yes" if doc else "no"),
                              {"relation": "table-cell", "from": a, "to": b})
    for a, b in tab.key_rules:
        rec.case(("docs-key-rule", a, b), "docs-key-rule", nontrivial=False)
        if a not in tab.promo or b not in tab.P(a):
            rec.violation("C11:docs:%s->%s:key-rule-contradicts-table" % (a, b),
                          "docs/data_types.rst lists '%s to %s' as an implicit cast under the table whose cell says no" % (a, b),
                          {"relation": "docs-key-rule", "from": a, "to": b})
    registered = {c for m in M.registries().values() for c in m.values()}
    classes = [c for c in M.all_operator_classes() if M.arity(c) in (1, 2) and (c in registered or not c.__subclasses__())]
    sigs = {}
    for cls in harness.seeded_order(classes, seed):
        info = class_info(cls, rev, names=("type_validation", "validate_type_compatibility"))
        form = dict(info, id="class:" + info["cls"], levels=[])
        sigs.setdefault((info["arity"], tuple(info["sig"])), []).append(info["cls"])
        F = Findings(tab, form)
        tuples = list(itertools.product(T, repeat=info["arity"]))
        for tp in tuples:
            args = [fwd[t] for t in tp]
            pr = direct(cls.type_validation, *args)
            ck = direct(cls.validate_type_compatibility, *args)
            if pr[0] == "ok":
                pr = ("ok", M.tname(pr[1], rev))
            acc = pr[0] == "ok" and ck == ("ok", True)
            rec.case((form["id"], "a", tp, "accept" if acc else "reject"), "a:" + ("accept" if acc else "reject"))
            full = dict(form, mode="standard")
            exp_acc, exp_res = expectation(tab, full, tp)
            rp = {"relation": "direct", "cls": cls.__module__ + ":" + cls.__qualname__, "types": list(tp), "form": form_replay(full)}
            dev = None
            if acc and not exp_acc:
                dev = ("accepted-but-table-rejects", "%s.type_validation(%s) -> %s, the table gives no admitted common type" % (info["cls"], ", ".join(tp), pr[1]))
            elif not acc and exp_acc:
                dev = ("rejected-but-table-accepts", "%s: type_validation(%s) -> %s, validate_type_compatibility -> %s; the table admits it" % (
                    info["cls"], ", ".join(tp), pr[1], ck[1]))
            elif acc and pr[1] not in exp_res:
                dev = ("result-type-differs", "%s.type_validation(%s) -> %s, documented result %s" % (info["cls"], ", ".join(tp), pr[1], "|".join(sorted(exp_res))))
            if dev and drift:
                c_acc, c_res = expectation(tabc, full, tp)
                if c_acc == acc and (not acc or pr[1] in c_res):
                    rec.count("deviations_explained_by_table_drift")
                    dev = None
            if dev:
                F.add(dev[0], "a", tp, dev[1], rp)
            elif ck[0] != "ok" or not isinstance(ck[1], bool) or ck[1] != (pr[0] == "ok"):
                F.add("check-vs-promotion-disagree", "a", tp, "%s: validate_type_compatibility(%s) -> %s but type_validation -> %s" % (
                    info["cls"], ", ".join(tp), ck[1], pr[1]), dict(rp, relation="check-iff"))
        F.emit(rec)
    # the four module-level functions with every distinct signature in use (+ no signature at all)
    sigs.setdefault((2, (None, None)), [])
    sigs.setdefault((1, (None, None)), [])
    for (ar, sig), users in sorted(sigs.items(), key=str):
        form = dict(arity=ar, sig=sig, mode="standard", id="functions:%s" % M.sig_label(sig), cls="DataTypes", levels=[],
                    family="%s[%s]" % ("Binary" if ar == 2 else "Unary", M.sig_label(sig)))
        F = Findings(tab, form)
        k = [fwd[s] if s else None for s in sig]
        for tp in itertools.product(T, repeat=ar):
            args = [fwd[t] for t in tp] + k
            pr = direct(DT.binary_implicit_promotion if ar == 2 else DT.unary_implicit_promotion, *args)
            ck = direct(DT.check_binary_implicit_promotion if ar == 2 else DT.check_unary_implicit_promotion, *args)
            if pr[0] == "ok":
                pr = ("ok", M.tname(pr[1], rev))
            acc = pr[0] == "ok"
            rec.case((form["id"], "fn", tp, "accept" if acc else "reject"), "fn:" + ("accept" if acc else "reject"))
            exp_acc, exp_res = expectation(tab, form, tp)
            rp = {"relation": "functions", "arity": ar, "sig": list(sig), "types": list(tp), "form": form_replay(form)}
            dev = None
            if acc != exp_acc:
                dev = ("accepted-but-table-rejects" if acc else "rejected-but-table-accepts",
                       "%s_implicit_promotion(%s; %s) -> %s, the table says %s" % ("binary" if ar == 2 else "unary", ", ".join(tp), M.sig_label(sig), pr[1],
                                                                                    "accept" if exp_acc else "reject"))
            elif acc and pr[1] not in exp_res:
                dev = ("result-type-differs", "%s_implicit_promotion(%s; %s) -> %s, documented result %s" % (
                    "binary" if ar == 2 else "unary", ", ".join(tp), M.sig_label(sig), pr[1], "|".join(sorted(exp_res))))
            if dev and drift:
                c_acc, c_res = expectation(tabc, form, tp)
                if c_acc == acc and (not acc or pr[1] in c_res):
                    rec.count("deviations_explained_by_table_drift")
                    dev = None
            if dev:
                F.add(dev[0], "a", tp, dev[1], rp)
            if ck[0] != "ok" or not isinstance(ck[1], bool) or ck[1] != acc:
                F.add("check-vs-promotion-disagree", "a", tp, "check_%s_implicit_promotion(%s; %s) -> %s but the promotion -> %s" % (
                    "binary" if ar == 2 else "unary", ", ".join(tp), M.sig_label(sig), ck[1], pr[1]), dict(rp, relation="functions-iff"))
            if ar == 2 and acc and tp[0] < tp[1]:
                pr2 = direct(DT.binary_implicit_promotion, args[1], args[0], *k)
                pr2 = ("ok", M.tname(pr2[1], rev)) if pr2[0] == "ok" else pr2
                if pr2 != pr and not F.flagged("a", tp) and not F.flagged("a", (tp[1], tp[0])):
                    F.add("result-type-asymmetric", "a", tp, "binary_implicit_promotion(%s; %s) -> %s, swapped -> %s" % (
                        ", ".join(tp), M.sig_label(sig), pr[1], pr2[1]), dict(rp, relation="functions-sym"))
        F.emit(rec)
    return len(classes), len(sigs)


# ------------------------------------------------------------------------------------------------

class Check:
    ID = "C11"
    LEVEL = "exploration"
    RULE = ("complete product {operator class} x {9 operand types}^n x {level}. Operator classes: every subclass of "
            "Operators.Binary/Unary (level a: direct calls of type_validation / validate_type_compatibility and of the four "
            "promotion functions per distinct (type_to_check, return_type)), every token of BINARY/UNARY/AGGREGATION/ANALYTIC/HR_* "
            "registries and DISTANCE_DISPATCH rendered as a script (levels: s = typed scalars, c = components in calc/aggr, "
            "d = mono-measure datasets, v = value domain operand of in/not_in; thorough: mixed cs/sc/ds/sd and the "
            "parameterised/ternary operators over 9^3 triples). One case = one call; distinct key = (operator form, level, "
            "operand types, accept/reject); non-trivial = the form accepts at least one operand tuple at that level (otherwise "
            "the level does not exist for the operator, e.g. a dataset-only operator given scalars). Oracle: implicit table of "
            "docs/data_types.rst parsed at run time; 'standard' operators (validation path inherited from Operators.Binary/"
            "Unary) and the hand-specified parameterised ones: accept iff table admits + documented result type; operators "
            "overriding validate/type_validation/validate_type_compatibility: accepted => table admits, result type, and "
            "closure (T accepted and S implicitly promoted to T => S accepted; this is how 'Null is compatible with every "
            "type' is checked for them). Invariants: check <=> promotion (a); result type / acceptance symmetric for + * = <> "
            "and or xor; accept/reject equal at all levels where the operator exists. Deviations reproduced by the engine's "
            "own IMPLICIT_TYPE_PROMOTION_MAPPING are attributed to the table cell (a0) and reported once.")
    ASSUMPTIONS = [
        "result type 'as documented' = the operator's declared return_type, else the operand type when both are equal, the other "
        "type when one is Null, Number for Integer/Number ('Integer is a subtype of Number'), else the unique common type of the "
        "table; where the documentation does not decide (Null with Null under a type_to_check, unary Null) both readings are accepted",
        "a unary operand that is a documented subtype of type_to_check keeps its type (-Integer is Integer)",
        "the symmetry invariant is restricted to the commutative tokens + * = <> and or xor at levels with two operands of the same kind",
        "the level-agreement invariant is restricted to levels at which the operator accepts anything at all; for operators with "
        "the inherited validation path every level must exist",
        "operators that override their validation (time operators, aggregates, analytics, nvl, random, datediff) may admit fewer "
        "types than their type_to_check says: only soundness + closure under the table is required of them",
        "parameter signatures of between/if/case/substr/replace/instr/round/trunc/dateadd and 'hierarchy works on a Number measure' "
        "are written by hand from the VTL reference manual (they are not introspectable); result types of round/trunc/dateadd/"
        "hierarchy are not checked",
        "operators whose class declares no type_to_check (daytoyear, yeartoday, isnull, ...) admit every type as far as this "
        "property is concerned; rank has no operand; alias/membership/timeshift/flow_to_stock have no typed script form",
        "a rejection is any exception out of semantic_analysis (raw Python exceptions are C32's concern and only counted here)",
    ]

    def run(self, tier, seed, rec):
        harness.boot()
        tab, tabc, fwd, rev = ctx()
        for p in tab.problems:
            rec.tool_error("docs/data_types.rst implicit table: " + p)
        missing = [t for t in tab.all_types if t not in fwd]
        if missing or len(tab.types) < 8:
            rec.tool_error("documented types %s; not known to vtlengine.DataTypes.SCALAR_TYPES: %s" % (tab.types, missing))
        if rec.tool_errors:
            return {"exhaustive": False}
        forms, unrendered = discover_forms(tier, rec)
        T = tab.all_types
        only = os.environ.get("C11_FORMS")          # debugging aid only: restrict the script forms (never exhaustive)
        if only:
            import re
            forms = [f for f in forms if re.search(only, f["id"])]
            rec.note("C11_FORMS=%s: only %d script forms evaluated" % (only, len(forms)))
        items = []
        for f in forms:
            tuples = harness.seeded_order(list(itertools.product(T, repeat=f["n"])), seed)
            if f["n"] >= 3:      # full oracle per level (hand-specified signature): one work item per level
                for lv in f["levels"]:
                    items.append({"form": dict(f, levels=[lv]), "tuples": tuples})
            else:
                items.append({"form": f, "tuples": tuples})
        items.sort(key=lambda it: -len(it["tuples"]) * len(it["form"]["levels"]))
        items = harness.seeded_order(items, seed) if seed else items
        harness.pmap(eval_form, items, rec)
        # history independence (own worker process, so the probes really start from a fresh engine state)
        hforms, _ = discover_forms("thorough", harness.Recorder())      # includes the parameterised operators in every tier
        harness.pmap(history_item, [[f for f in hforms if f.get("n", 9) <= 2], []], rec, workers=2)
        # level (a) last: for a defect visible at both levels the replay kept is the script (public API) one
        nclasses, nsigs = level_a(rec, seed)
        for u in unrendered:
            rec.note("no script form found for %s (covered at level (a) only)" % u)
        registered = {M.cls_label(c) for m in M.registries().values() for c in m.values()}
        spec_cls = {s["cls"] for s in SPECS} | {f["cls"] for f in forms}
        others = sorted(M.cls_label(c) for c in M.all_operator_classes()
                        if M.arity(c) in (1, 2) and M.cls_label(c) not in registered and M.cls_label(c) not in spec_cls and c.__subclasses__() == [])
        if others:
            rec.note("typed operator classes outside the registries, level (a) only: " + ", ".join(others))
        if rec.counters.get("forms_evaluated_parts", 0) != len(items):
            rec.tool_error("only %s of %d work items were evaluated" % (rec.counters.get("forms_evaluated_parts"), len(items)))
        if not any(k[3] == "accept" for k in rec.keys if len(k) == 4 and k[1] in ("s", "ss")) or \
                not any(k[3] == "reject" for k in rec.keys if len(k) == 4 and k[1] in ("s", "ss")):
            rec.tool_error("scalar level never produced both an accepted and a rejected case")
        for kind in ("s", "c", "d"):
            if not only and not any(k.startswith("level_applicable_") and set(k[17:]) == {kind} and v for k, v in rec.counters.items()):
                rec.tool_error("no operator form was applicable at level %r: the level generator is broken" % kind)
        return {"exhaustive": not only, "operator_classes_level_a": nclasses, "distinct_signatures": nsigs,
                "script_forms": len(forms), "forms_without_script": len(unrendered), "types": T,
                "levels": sorted({lv["label"] for f in forms for lv in f["levels"]})}

    # --------------------------------------------------------------------------------------------
    def replay(self, data):
        harness.boot()
        tab, tabc, fwd, rev = ctx()
        rel = data["relation"]
        if rel == "history":
            rec = harness.Recorder()
            forms, _ = discover_forms("thorough", rec)
            history_item([f for f in forms if f["id"] == data["form_id"]], rec)
            return bool(rec.violations)
        if rel == "table-cell":
            return (data["to"] in tabc.P(data["from"])) != (data["to"] in tab.P(data["from"]))
        if rel == "docs-key-rule":
            return data["to"] not in tab.P(data["from"])
        form = data.get("form")
        tp = tuple(data.get("types", ()))
        if rel in ("direct", "check-iff"):
            import importlib
            mod, qn = data["cls"].split(":")
            cls = getattr(importlib.import_module(mod), qn)
            args = [fwd[t] for t in tp]
            pr, ck = direct(cls.type_validation, *args), direct(cls.validate_type_compatibility, *args)
            if rel == "check-iff":
                return ck[0] != "ok" or ck[1] != (pr[0] == "ok")
            acc = pr[0] == "ok" and ck == ("ok", True)
            exp_acc, exp_res = expectation(tab, form, tp)
            return acc != exp_acc or (acc and M.tname(pr[1], rev) not in exp_res)
        if rel in ("functions", "functions-iff", "functions-sym"):
            import vtlengine.DataTypes as DT
            ar = data["arity"]
            k = [fwd[s] if s else None for s in data["sig"]]
            args = [fwd[t] for t in tp] + k
            pr = direct(DT.binary_implicit_promotion if ar == 2 else DT.unary_implicit_promotion, *args)
            ck = direct(DT.check_binary_implicit_promotion if ar == 2 else DT.check_unary_implicit_promotion, *args)
            if rel == "functions-iff":
                return ck[0] != "ok" or ck[1] != (pr[0] == "ok")
            if rel == "functions-sym":
                pr2 = direct(DT.binary_implicit_promotion, args[1], args[0], *k)
                return pr[0] != pr2[0] or (pr[0] == "ok" and pr[1] is not pr2[1])
            exp_acc, exp_res = expectation(tab, form, tp)
            return (pr[0] == "ok") != exp_acc or (pr[0] == "ok" and M.tname(pr[1], rev) not in exp_res)
        obs = [M.observe(M.run_case(c), tuple(c["where"]), rev) for c in data["cases"]]
        if rel == "expect":
            exp_acc, exp_res = expectation(tab, form, tp)
            acc = obs[0][0] == "ok"
            if exp_acc is None:
                return False
            if acc != exp_acc:
                return acc or form["mode"] in ("standard", "spec")
            return bool(acc and exp_res is not None and obs[0][1] not in exp_res)
        if rel == "closure":
            return obs[0][0] == "ok" and obs[1][0] != "ok"
        if rel in ("same-accept", "same-accept-sym"):
            return (obs[0][0] == "ok") != (obs[1][0] == "ok")
        if rel == "same-result":
            return obs[0][0] == obs[1][0] == "ok" and obs[0][1] != obs[1][1]
        raise ValueError("unknown relation %r" % rel)

"""C19 — run() rejects every input that violates its declared structure, accepts and returns the denoted value otherwise.

(a) structural violations alone and in pairs (duplicate keys adjacent / distant / equal only after
    normalisation, null identifier, missing identifier column, missing non-nullable column, extra column, two
    datapoints without identifiers);
(b) every documented input spelling of every type, generated from the tables of docs/data_types.rst (parsed at run
    time) and instantiated over period numbers 0..max+1 and the boundary years, plus the C18 pools.

Oracle O2 + O3: a validity predicate written from the documentation and an independent calendar (python
datetime / isocalendar).  An invalid input must be rejected with DataLoadError or InputValidationException (nothing
else), a valid one must be accepted and come back as the value it denotes in the documented output form.  Where
the documentation is silent the only requirement is "accepted, or a VTL input error".  Forms: DataFrame and CSV.
Verdicts are always taken from one-cell tables (packed tables only serve to settle accepted cells quickly).
"""
from vtlmc import harness
from vtlmc import c18_pools as P


def judge(exp, val, out):
    """deviation of one outcome from the expectation, or None"""
    if out[0] == "ok":
        if not out[2]:
            return "datapoint-lost"
        if exp == "invalid":
            return "accepted"
        if exp == "valid" and not P.value_ok(val, out[1]):
            return "wrong-value"
        return None
    if out[0] == "reject":
        return "rejected" if exp == "valid" else None
    if out[0] == "other":
        return "fails-with-non-input-error"
    return "fails-with-raw-error"


def _show(out):
    if out[0] == "ok":
        return "accepted -> %r" % (out[1],)
    return "%s %s(%s): %s" % ({"reject": "rejected with", "other": "failed with non-input VTL error", "raw": "failed with raw"}[out[0]],
                              out[1], out[2], str(out[3])[:160].replace("\n", " "))


def _expect_text(exp, val):
    if exp == "invalid":
        return "rejected with DataLoadError / InputValidationException"
    if exp == "valid":
        return "accepted and returned as %s" % (val,)
    return "accepted, or a VTL input error (documentation silent)"


def keyed(prefix, devs):
    """{form: deviation or None} -> list of (key suffix, forms): one key when both forms deviate alike"""
    d = {f: v for f, v in devs.items() if v}
    if not d:
        return []
    if len(d) == len(devs) and len(set(d.values())) == 1:
        return [("%s:%s" % (prefix, next(iter(d.values()))), sorted(d))]
    return [("%s:%s:%s-only" % (prefix, v, P.FORM_NAME[f]), [f]) for f, v in sorted(d.items())]


def judge_cell(V, type_, role, c, outs, from_pack):
    """outs: {form: outcome}; a deviation seen inside a packed table is re-examined on the one-cell table"""
    exp, val = P.expectation(c, role)
    devs = {}
    for f in P.FORMS_2:
        dev = judge(exp, val, outs[f])
        if dev and from_pack.get(f):
            outs[f] = P.single_cell(V, type_, role, c, f)
            dev = judge(exp, val, outs[f])
        devs[f] = dev
    return exp, val, devs


def work_cells(item, rec):
    V = harness.boot()
    kind, type_, role, cells = item
    per_form, packed = {}, {}
    for f in P.FORMS_2:
        outs, fp, calls = P.outcomes_of(V, kind, type_, role, cells, f)
        per_form[f], packed[f] = outs, fp
        rec.count("engine_runs", calls)
    seen = set()
    for k, c in enumerate(cells):
        outs = {f: per_form[f][k] for f in P.FORMS_2}
        exp, val, devs = judge_cell(V, type_, role, c, outs, {f: packed[f][k] for f in P.FORMS_2})
        cls = P.cell_class(c, role)
        oc = "/".join(outs[f][0] for f in P.FORMS_2)
        rec.case((type_, role, cls, c.get("fmt"), exp, oc), "%s:%s" % (exp, oc), n=2,
                 nontrivial=c["t"] is not None or role != "nn",
                 sample={"type": type_, "role": role, "cell": c["t"], "class": cls, "expected": exp,
                         "dataframe": _show(outs["df"])[:120], "csv": _show(outs["csv"])[:120]})
        rec.count("cells_expected_" + exp)
        if exp == "valid" and all(outs[f][0] == "ok" for f in P.FORMS_2):
            rec.count("valid_cells_accepted_and_value_checked")
        if exp == "invalid" and all(outs[f][0] == "reject" for f in P.FORMS_2):
            rec.count("invalid_cells_rejected_with_input_error")
        for key, forms in keyed(P.key_prefix("C19", type_, c, role), devs):
            if key in seen:
                rec.count("violations_same_key_same_item")
                continue
            seen.add(key)
            rec.violation(key, "%s %s, cell %r (%s%s): %s  [expected: %s]" % (
                type_, P.ROLE_NAME[role], c["t"], cls, ", documented format %s" % c["fmt"] if c.get("fmt") else "",
                "; ".join("%s: %s" % (P.FORM_NAME[f], _show(outs[f])) for f in forms), _expect_text(exp, val)),
                {"kind": "cell", "type": type_, "role": role, "cell": c})


def run_structural(V, case):
    spec = case["spec"]
    outs = {}
    for f in P.FORMS_2:
        o = P.run_table(V, spec, f)
        outs[f] = ("ok", o[1], True) if o[0] == "ok" else o
    devs = {}
    for f in P.FORMS_2:
        o = outs[f]
        if o[0] == "ok":
            if case["exp"] == "invalid":
                devs[f] = "accepted"
            elif case["exp"] == "valid":
                exp_rows = sorted((tuple(sorted(r.items())) for r in P.expected_rows(spec)), key=repr)
                got = sorted((tuple(sorted(r.items())) for r in o[1]), key=repr)
                devs[f] = None if harness.rows_equal(exp_rows, got) else "wrong-value"
            else:
                devs[f] = None
        elif o[0] == "reject":
            devs[f] = "rejected" if case["exp"] == "valid" else None
        else:
            devs[f] = "fails-with-non-input-error" if o[0] == "other" else "fails-with-raw-error"
    return outs, devs


def attributed_name(V, case, devs):
    """a pair of violations that deviates exactly like one of its members alone is the member's finding (one root
    cause = one key); otherwise the pair is named"""
    if len(case["viol"]) == 2 and any(devs.values()):
        singles = {c["name"]: c for c in P.structural_cases() if len(c["viol"]) == 1}
        for m in case["viol"]:
            if m in singles and run_structural(V, singles[m])[1] == devs:
                return m
    return case["name"]


def work_structural(case, rec):
    V = harness.boot()
    outs, devs = run_structural(V, case)
    rec.count("engine_runs", 2)
    oc = "/".join(outs[f][0] for f in P.FORMS_2)
    rec.case(("structure", case["name"], oc), "%s:%s" % (case["exp"], oc), n=2,
             sample={"structure": case["name"], "expected": case["exp"], "dataframe": _show(outs["df"])[:120],
                     "csv": _show(outs["csv"])[:120]})
    rec.count("structural_expected_" + case["exp"])
    if case["exp"] == "invalid" and all(outs[f][0] == "reject" for f in P.FORMS_2):
        rec.count("structural_violations_rejected_with_input_error")
    for key, forms in keyed("C19:structure:%s" % attributed_name(V, case, devs), devs):
        rec.violation(key, "table with %s (columns %s, rows %s): %s  [expected: %s]" % (
            case["name"], case["spec"]["cols"], case["spec"]["rows"][:3],
            "; ".join("%s: %s" % (P.FORM_NAME[f], _show(outs[f])) for f in forms),
            _expect_text(case["exp"], "the datapoints of the table")), {"kind": "structure", "name": case["name"]})


def work(item, rec):
    if item[0] == "structure":
        work_structural(item[1], rec)
    else:
        work_cells(item, rec)


class Check:
    ID = "C19"
    LEVEL = "exploration"
    RULE = ("(a) every structural violation alone and every compatible pair, on a 6-row / 4-component table, plus keys "
            "equal only after normalisation per identifier type; (b) per type the C18 pool in three roles and every "
            "spelling generated from the format tables of docs/data_types.rst x period numbers 0..max+1 x years "
            "{1799,1800,1999,2020,2021,9999,10000} (quick: {1799,2020,2021,10000}), Dates every month x day 28-32 x time "
            "variants, Time intervals / shorthands, Duration letters; each in DataFrame and CSV form. A case = one cell "
            "(or one structural table) in one form; distinct = (type, role, value class, documented format, expectation, "
            "outcome per form); non-trivial = everything but a null in a non-nullable measure (no expectation).")
    ASSUMPTIONS = [
        "a packed table that run() accepts settles each of its rows (rows are validated independently); every deviation "
        "is re-examined and reported on a one-cell table only",
        "documentation silent (only 'accepted or VTL input error' required): Integer/Number spellings other than plain "
        "decimal literals (007, ' 7', 7.0, 1e3, .5, 5., NaN, inf, beyond int64), padded values, empty strings, nulls in "
        "non-nullable measures, extra columns, Date 2020-1-5 / 20200115, Time_Period widths not in the table (2020-W1, "
        "2020Q01), lower-case indicators, 2020A1 / 2020-A, the examples 2020D-1 / 2020D-01 / 2020D-001 (they contradict "
        "the format column YYYY-D[xx]x), Time with datetime bounds or years outside the Date range 1800-9999, "
        "a single Date or a Time_Period literal in a Time column, lower-case Duration letters",
        "Time_Period has no documented year range: any four-digit year is valid, five digits are not 'YYYY'",
        "the padding of the default ('vtl') Time_Period output is taken from the example of the output table: where the "
        "example cannot tell (2020W15, 2020D100) both the unpadded and the padded rendering are accepted",
        "a Date is compared by the instant it denotes (YYYY-MM-DD and YYYY-MM-DDT00:00:00 are the same value) and must "
        "match one of the two documented output patterns (an optional fraction of <= 6 digits allowed)",
        "Number values are compared with relative tolerance 1e-9",
    ]

    def run(self, tier, seed, rec):
        harness.boot()
        try:
            docs = P.parse_docs()
        except Exception as e:  # noqa: BLE001
            rec.tool_error("docs/data_types.rst could not be parsed: %s" % e)
            return {"exhaustive": False}
        items = [("structure", c) for c in P.structural_cases()]
        n_struct = len(items)
        cell_items = P.cell_items(docs, tier)
        items += cell_items
        items = harness.seeded_order(items, seed)
        harness.pmap(work, items, rec)
        for name in ("valid_cells_accepted_and_value_checked", "invalid_cells_rejected_with_input_error",
                     "structural_violations_rejected_with_input_error", "cells_expected_silent"):
            if not rec.counters.get(name):
                rec.tool_error("non-vacuity: counter %s is zero" % name)
        return {"exhaustive": True, "structural_tables": n_struct, "cells": sum(len(i[3]) for i in cell_items),
                "documented_time_period_formats": [f for _, fs, _ in docs["tp_formats"] for f in fs],
                "date_year_range": list(docs["date_years"]), "forms": list(P.FORMS_2)}

    def replay(self, data):
        V = harness.boot()
        if data["kind"] == "structure":
            case = next(c for c in P.structural_cases() if c["name"] == data["name"])
            outs, devs = run_structural(V, case)
        else:
            c = data["cell"]
            outs = {f: P.single_cell(V, data["type"], data["role"], c, f) for f in P.FORMS_2}
            exp, val, devs = judge_cell(V, data["type"], data["role"], c, outs, {})
        for f in P.FORMS_2:
            print("   %s: %s -> deviation %s" % (P.FORM_NAME[f], _show(outs[f]), devs[f]))
        return any(devs.values())

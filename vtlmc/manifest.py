"""Generates /verif/MANIFEST.json from the table below (python -m vtlmc.manifest)."""
import json
import os

VERIF = os.path.dirname(os.path.dirname(os.path.abspath(__file__)))

BASE_NOTE = ("Trusted base: the front-end stand-in (ANTLR Java runtime 4.11.1 interpreting the repository's serialized "
             "ATNs, label mapping read from Vtl.cpp/bindings.cpp) in place of the compiled C++ parser that cannot be "
             "built offline; conformance shown on the full upstream suite (DESIGN 1.3). ")

# id -> (category, technique, text, note, design_ref, has_thorough)
CHECKS = {
    "C26": ("exploration", "exhaustive enumeration of all raise sites (ast) + executed instantiation + runtime monitor",
            "Every construction site of a coded VTL exception in src/vtlengine is enumerated from the working tree and "
            "executed against the real catalogue; complete finite space, so the right level is exhaustive exploration.",
            BASE_NOTE + "Codes computed at run time with no string constant reaching them are covered only by the monitor.",
            "4/C26", False),
    "C13": ("model_checking", "explicit-state check of an abstract table store driven by the real DAG schedule, every model trace replayed against run() through a connection proxy",
            "Every dependency graph within the bound (x persistence labelling x return_only_persistent) is explored; the abstract "
            "store's invariants are checked on every state and the real catalogue trace of run() must equal the model trace.",
            BASE_NOTE + "Statement reads come from the generator; catalogue events are observed at the DuckDB connection.", "4/C13", True),
    "C16": ("fault_enumeration", "fault injection at every event of the connection-proxy trace + explicit-state search over histories of failing runs",
            "Every failure point (each load step, statement, fetch, write, release) of each subject script x fault alphabet x "
            "{in-memory, file-backed}, configuration failures, and all sequences of <= 3 failing runs followed by probes.",
            BASE_NOTE + "Faults are injected at DuckDB connection calls; residue = temp dir entries, db file, open connection, fds, probe outcome.", "4/C16", True),
    "C17": ("model_checking", "stateless schedule enumeration of real threads with iterative preemption bounding (hand-written cooperative scheduler)",
            "All schedules with <= 1 (quick) / <= 2 (thorough) preemptions of every pair of an 11-call alphabet (triples in thorough) at the "
            "engine's shared-state switch points; each call's outcome must equal its outcome alone in a fresh process.",
            BASE_NOTE + "Interleavings only at declared switch points (sys.settrace call events + parser_lock); parse-tree lifetime modelled by generation check.", "4/C17", True),
    "C23": ("exploration", "exhaustive enumeration of token sequences / character strings / token mutations / nesting ladders / parse histories",
            "Bounded-exhaustive input spaces through the recogniser on the repository's ATN and through create_ast, plus all parse "
            "histories of length <= 3 compared with a fresh process.",
            BASE_NOTE + "Memory safety of the compiled extension is out of reach (DESIGN 7).", "4/C23", True),
    "C31": ("model_checking", "the repository's parser ATN interpreted in SLL and LL by ANTLR's own prediction code, compared on exhaustively generated inputs",
            "SLL vs LL verdict, first error and parse tree compared on every corpus script, one shortest sentence through every ATN "
            "transition, all their single-token mutations and all token sequences up to length k.",
            BASE_NOTE + "Java runtime 4.11.1 stands for the C++ runtime 4.13.2.", "4/C31", True),
}

NOT_APPLICABLE = {}


def build():
    checks = []
    for pid, (cat, tech, text, note, ref, thorough) in sorted(CHECKS.items()):
        c = {
            "property_id": pid,
            "quick_cmd": "./check %s --tier quick" % pid,
            "evidence_file": "/verif/evidence/%s.json" % pid,
            "replay_cmd_template": "./check %s --replay {path}" % pid,
            "engine": "vtlmc",
            "level_claimed": {"category": cat, "text": text, "design_ref": "DESIGN.md section " + ref},
            "level_note": note,
            "technique": tech,
        }
        if thorough:
            c["thorough_cmd"] = "./check %s --tier thorough" % pid
        checks.append(c)
    props = [json.loads(l)["id"] for l in open(os.path.join(VERIF, "properties.jsonl"))]
    na = []
    for pid in props:
        if pid not in CHECKS:
            na.append({"property_id": pid, "reason": NOT_APPLICABLE.get(pid, "check not built yet (work in progress; see DESIGN.md section 4 for the planned bounded exploration)")})
    m = {
        "version": 1,
        "setup_cmd": "./setup.sh",
        "hooks": {
            "guard": "MEANINGFUL_DATA_VTLENGINE_VERIF",
            "enable": "no source hooks: every seam is installed from the harness process (sys.modules stand-in, monkeypatched connection proxy, threading.settrace); checks export MEANINGFUL_DATA_VTLENGINE_VERIF=1 only for uniformity",
            "baseline_off_cmd": "cd /repo && /venv/bin/python -m pytest -ra -q -p no:cacheprovider --timeout=900 --continue-on-collection-errors",
            "source_commits": [],
            "add_only": True,
        },
        "engines": [{
            "name": "vtlmc", "path": "/verif/vtlmc",
            "serves_properties": sorted(CHECKS),
            "kind_free_text": "hand-written bounded-exhaustive explorers for Python (program x input enumeration, explicit-state search over API-call histories, schedule enumeration with a preemption bound, fault-point enumeration) driving the real engine behind a parser stand-in",
        }],
        "checks": checks,
        "not_applicable": na,
        "notes": "See DESIGN.md. known_findings.txt lists genuine defects (fixed: / known:).",
    }
    with open(os.path.join(VERIF, "MANIFEST.json"), "w") as f:
        json.dump(m, f, indent=1)
    try:
        import jsonschema
        jsonschema.validate(m, json.load(open("/root/.vp/MANIFEST.schema.json")))
        print("MANIFEST.json valid: %d checks, %d not_applicable" % (len(checks), len(na)))
    except FileNotFoundError:
        print("MANIFEST.json written (schema not found)")


if __name__ == "__main__":
    build()

"""Generates /verif/MANIFEST.json from the table below (python -m vtlmc.manifest)."""
import json
import os

VERIF = os.path.dirname(os.path.dirname(os.path.abspath(__file__)))

BASE_NOTE = ("Trusted base: the front-end stand-in (ANTLR Java runtime 4.11.1 interpreting the repository's serialized "
             "ATNs, label mapping read from Vtl.cpp/bindings.cpp) in place of the compiled C++ parser that cannot be "
             "built offline; conformance shown on the full upstream suite (DESIGN 1.3). ")

# id -> (category, technique, text, note, design_ref, has_thorough)
REF_NOTE = BASE_NOTE + "Expected values come from an independent reference evaluator (plain Python, no engine code) that must first reproduce the repository's stored expectations (calibration gate, exit 2 otherwise); semantics the manual leaves open are excluded or both readings accepted (listed in the evidence). "
DIFF_NOTE = BASE_NOTE + "Differential oracle: no hand-written expected values. "

def E(tech, text, note, ref, cat="exploration", thorough=True):
    return (cat, tech, text, note, ref, thorough)

CHECKS = {
    "C01": E("exhaustive program x input enumeration (truth-table packing, all depth-2 operator pairs, all 16x16 key/value relations) against a calibrated reference evaluator",
             "All element-wise operators at component / scalar / dataset level over the full cartesian product of small value domains, complete nesting depth 2; each result compared with a reference evaluator calibrated on 83 Reference-Manual examples.", REF_NOTE, "4/C01"),
    "C02": E("exhaustive enumeration of well-typed clause chains x all relations over a 2x2 identifier grid against a calibrated reference evaluator",
             "Every well-typed chain of filter/calc/keep/drop/rename/sub up to length 2 (3 over a sub-alphabet; 4 thorough) on three kinds of subject, over all 625 packed relations.", REF_NOTE, "4/C02"),
    "C03": E("exhaustive enumeration of aggregate invocations x every multiset of group contents against a calibrated reference evaluator",
             "10 aggregates x groupings x having x forms over every multiset of size <= 3 (5 thorough) of {null,a,b}, per measure type.", REF_NOTE, "4/C03"),
    "C04": E("exhaustive enumeration of join heads x bodies x all key-presence patterns (packed) against a calibrated nested-loop reference join",
             "inner/left/full/cross joins of 2-3 operands in every identifier configuration, alias and clash mode, with bodies, over every key-presence pattern of a 3-key universe.", REF_NOTE, "4/C04"),
    "C05": E("exhaustive enumeration of set expressions x every subset assignment of a key universe against the property's own set algebra",
             "union/intersect (2-4 operands), setdiff, symdiff, nested and filtered operands, permuted component orders; every operand is every subset of the keys.", REF_NOTE, "4/C05"),
    "C06": E("exhaustive enumeration of analytic invocations x 43 frames x 2 window modes x all short partitions against a calibrated reference evaluator",
             "16 analytic functions x partition x order x every frame with offsets 0-3/unbounded in data-points and range mode, dataset level and inside calc, partitions of 0-3 (4) rows over {null,a,b}, each in two physical row orders.", REF_NOTE, "4/C06"),
    "C07": E("exhaustive enumeration of check / datapoint-ruleset / hierarchical-ruleset programs x all 3^5 presence patterns against a calibrated reference evaluator",
             "check, check_datapoint (rule sequences / subsets), check_hierarchy and hierarchy over all validation / input / output modes that calibrate on the repository's 89 stored cases; unmodelled mode combinations are listed, not judged.", REF_NOTE, "4/C07"),
    "C08": E("exhaustive enumeration of every period of every indicator over a year range x shifts, plus all gap patterns of 6-period windows, against an independent reference calendar",
             "timeshift / period_indicator / getyear.. / time_agg / datediff / dateadd applied to the complete calendar (1995-2030 quick, 1900-2100 thorough) and fill_time_series / flow_to_stock / stock_to_flow on all 63 presence patterns across year boundaries.",
             BASE_NOTE + "Oracle = plain datetime/isocalendar reference calendar (vtlmc/refcal.py), calibrated on 171 stored expectations.", "4/C08"),
    "C09": E("exhaustive enumeration of all 8x8 (source,target) pairs x value pool x 3 levels against the conversion tables of docs/data_types.rst parsed at run time",
             "Every cast pair over a pool of edge values at scalar, component and dataset level; forbidden pairs must raise SemanticError, values convert as the documented conversion details say, levels must agree.",
             BASE_NOTE + "Oracle = docs tables + an independent re-implementation of the documented conversion rules that must reproduce the 51 worked examples of the document.", "4/C09"),
    "C10": E("semantic_analysis() as the model of run(): structure-conformance monitor over the recorded corpus, the program alphabet and 37 structure-changing statements",
             "Names, components (role, type, nullability), column order, value types, identifier uniqueness / non-nullness of every returned dataset against what semantic_analysis predicts.", DIFF_NOTE, "4/C10"),
    "C11": E("complete enumeration of the 9x9 (9^3) operand-type space for every operator class found by introspection, against the implicit-cast table parsed from the docs",
             "Every operator of the registries x every ordered type pair at the promotion-function, scalar, component and dataset level; accept/reject and result type against the documented table plus table-free invariants.",
             BASE_NOTE + "Oracle = docs/data_types.rst implicit-cast table parsed at run time; parameter signatures of ternary operators are hand-written (listed).", "4/C11"),
    "C12": E("exhaustive enumeration of dependency graphs (and clause-reference graphs) with every permutation of their statements; differential oracle",
             "Every dependency graph within the bound, definitions interleaved in all orders, every cyclic digraph on <= 3 statements, corpus scripts permuted: results / structures / error codes equal to the written order's.", DIFF_NOTE, "4/C12"),
    "C13": E("explicit-state check of an abstract table store driven by the real DAG schedule, every model trace replayed against run() through a connection proxy", 
             "Every dependency graph within the bound (x persistence labelling x return_only_persistent), plus clause-reference graphs; the store's invariants are checked on every state and the real catalogue trace of run() must equal the model trace.",
             BASE_NOTE + "Statement reads come from the generator; catalogue events are observed at the DuckDB connection.", "4/C13", "model_checking"),
    "C14": E("exhaustive enumeration of a program list x {csv,parquet} x return_only_persistent; the same run without output_folder is the model",
             "Files present, file contents read back (typed by the semantic structure) and scalar file against the in-memory result of the same call.", DIFF_NOTE, "4/C14"),
    "C15": E("complete enumeration of the 32-point configuration lattice x program alphabet, plus plan-sensitive scripts on inputs large enough to parallelise; differential oracle",
             "Same datapoints under every setting of VTL_THREADS x VTL_USE_IN_MEMORY_DB x VTL_MEMORY_LIMIT x VTL_TEMP_DIRECTORY.", DIFF_NOTE + "DuckDB's internal scheduling is repeated (2x), not enumerated.", "4/C15"),
    "C16": E("fault injection at every event of the connection-proxy trace + explicit-state search over histories of failing runs",
             "Every failure point (each load step, statement, fetch, write, release) of each subject script x fault alphabet x {in-memory, file-backed}, configuration failures, and all sequences of <= 3 failing runs followed by probes.",
             BASE_NOTE + "Faults are injected at DuckDB connection calls; residue = temp dir entries, db file, open connection, fds, probe outcome.", "4/C16", "fault_enumeration"),
    "C17": E("stateless schedule enumeration of real threads with iterative preemption bounding (hand-written cooperative scheduler)",
             "All schedules with <= 1 (quick) / <= 2 (thorough) preemptions of every pair of an 11-call alphabet (triples in thorough) at the engine's shared-state switch points; each call's outcome must equal its outcome alone in a fresh process.",
             BASE_NOTE + "Interleavings only at declared switch points (sys.settrace call events + parser_lock); parse-tree lifetime modelled by generation check.", "4/C17", "model_checking"),
    "C18": E("exhaustive enumeration of cell-text pools x roles x every representable input form; differential oracle across forms",
             "Each table materialised as CSV, DataFrame (str / string / native dtypes) and Parquet (text / native): all forms reject with a VTL input error or all accept with equal datapoints.", DIFF_NOTE, "4/C18"),
    "C19": E("exhaustive enumeration of structural violations and of every documented input spelling x out-of-range instantiations against a docs-derived validity predicate + reference calendar",
             "Reject iff invalid; accepted values come back as the value they denote.", BASE_NOTE + "Oracle = docs/data_types.rst tables parsed at run time + datetime/isocalendar.", "4/C19"),
    "C20": E("the input space of C19/C18 with validate_dataset() and run() played against each other",
             "validate_dataset raises iff run of a script reading the dataset rejects the same input (DataFrame and CSV).", DIFF_NOTE, "4/C20"),
    "C21": E("exhaustive enumeration of every period x documented spelling x output format (packed), Python vs SQL, plus column-independence space",
             "All spellings load to one value, rendering equals the documented representation, unsupported cells raise VTL errors, round trip, Python and SQL agree; a Time_Period column behaves as it does alone whatever its sibling columns hold.",
             BASE_NOTE + "Oracle = docs tables parsed at run time + reference calendar.", "4/C21"),
    "C22": E("enumeration of a lattice of API calls x argument shapes x forced outcomes with deep snapshots before / after",
             "Every argument object (dicts, lists, DataFrames incl. backing arrays, files) is observably unchanged after the call, whether it succeeds or fails.", BASE_NOTE + "The URL fetch is replaced by a local stub.", "4/C22"),
    "C23": E("exhaustive enumeration of token sequences / character strings / token mutations / nesting ladders / parse histories",
             "Bounded-exhaustive input spaces through the recogniser on the repository's ATN and through create_ast, plus all parse histories of length <= 3 compared with a fresh process.",
             BASE_NOTE + "Memory safety of the compiled extension is out of reach (DESIGN 7).", "4/C23"),
    "C24": E("enumeration of every corpus script + literal / null-position / reserved-word / operator-type / comment spaces; structural AST comparison, idempotence, comment multiset, run equivalence",
             "prettify output parses to a structurally identical AST, is idempotent, keeps comments, and runs to the same results.", DIFF_NOTE, "4/C24"),
    "C25": E("enumeration of every corpus script + generated multi-statement scripts; scheme vs script differential",
             "One transformation per assignment with name / persistence, run(scheme) == run(script), definitions re-parse to the originals.", DIFF_NOTE, "4/C25"),
    "C26": E("exhaustive enumeration of all raise sites (ast) + executed instantiation under adversarial data + runtime monitor",
             "Every construction site of a coded VTL exception is enumerated from the working tree and executed against the real catalogue, with argument values / output-dataset names containing braces; complete finite space.",
             BASE_NOTE + "Codes computed at run time with no string constant reaching them are covered only by the monitor.", "4/C26", "exploration", False),
    "C27": E("complete enumeration of pysdmx DataType x Role, structures of 1-3 (5) components, containers x entry points against the docs tables",
             "One VTL component per SDMX component with the documented role / type / nullability; unmappable structures rejected with an input-validation error.", BASE_NOTE + "Oracle = docs/data_structures.rst parsed at run time.", "4/C27"),
    "C28": E("exhaustive enumeration of rule shapes x operator contexts x all pairs/triples of viral values x every row permutation against a calibrated propagation model",
             "Viral attribute of every result datapoint against the documented propagation model; independence of input row order; missing rule rejected.", REF_NOTE, "4/C28"),
    "C29": E("enumeration of programs over case-variant names in every operator context; same program with distinct names as differential oracle (+ reference evaluator)",
             "Case-variant components / datasets keep their own values and appear in the result when semantic analysis says so.", REF_NOTE, "4/C29"),
    "C30": E("enumeration of the settings grid, each from a fresh process state (fork), all ordered pairs of boundary settings as histories, decimal-arithmetic oracle",
             "Each setting rejected with the documented error or applied: rounding to scale, precision overflow rejected, exact decimal sums; an earlier setting never leaks.", BASE_NOTE + "Ranges parsed from docs/environment_variables.rst; arithmetic oracle = Python decimal.", "4/C30"),
    "C31": E("the repository's parser ATN interpreted in SLL and LL by ANTLR's own prediction code, compared on exhaustively generated inputs",
             "SLL vs LL verdict, first error and parse tree compared on every corpus script, one shortest sentence through every ATN transition, all their single-token mutations and all token sequences up to length k.",
             BASE_NOTE + "Java runtime 4.11.1 stands for the C++ runtime 4.13.2.", "4/C31", "model_checking"),
    "C32": E("enumeration of a failure table x shapes x output formats, error-mapper keyword injection, awkward statements, and every corpus call; raw-error monitor",
             "run() returns or raises a VTLEngineException with a catalogued code for valid inputs.", BASE_NOTE + "Scripts that fail semantic analysis are outside the domain (counted only).", "4/C32"),
    "C33": E("all row permutations (n<=4 quick / 6 thorough) and column orders of every input of a program alphabet in DataFrame and CSV form; differential oracle",
             "Same set of result datapoints as the identity order.", DIFF_NOTE, "4/C33"),
}

NOT_APPLICABLE = {}


def build():
    checks = []
    enabled = set(open(os.path.join(VERIF, "vtlmc", "enabled.txt")).read().split())
    # thorough tiers are registered only after a complete run against /repo that exited 0 (ids in thorough_ok.txt)
    thorough_ok = set(open(os.path.join(VERIF, "vtlmc", "thorough_ok.txt")).read().split())
    for pid, (cat, tech, text, note, ref, thorough) in sorted(CHECKS.items()):
        if pid not in enabled:
            continue
        c = {
            "property_id": pid,
            "quick_cmd": "./check %s --tier quick" % pid,
            "evidence_file": "/verif/evidence/%s.json" % pid,
            "replay_cmd_template": "./check %s --replay {path}" % pid,
            "engine": "vtlmc",
            "level_claimed": {"category": cat, "text": text, "design_ref": "DESIGN.md section " + ref},
            "level_note": note,
            "technique": tech,
        }
        if thorough and pid in thorough_ok:
            c["thorough_cmd"] = "./check %s --tier thorough" % pid
        checks.append(c)
    props = [json.loads(l)["id"] for l in open(os.path.join(VERIF, "properties.jsonl"))]
    na = []
    for pid in props:
        if pid not in CHECKS or pid not in enabled:
            na.append({"property_id": pid, "reason": NOT_APPLICABLE.get(pid, "check not built yet (work in progress; see DESIGN.md section 4 for the planned bounded exploration)")})
    m = {
        "version": 1,
        "setup_cmd": "./setup.sh",
        "hooks": {
            "guard": "MEANINGFUL_DATA_VTLENGINE_VERIF",
            "enable": "no source hooks: every seam is installed from the harness process (sys.modules stand-in, monkeypatched connection proxy, threading.settrace); checks export MEANINGFUL_DATA_VTLENGINE_VERIF=1 only for uniformity",
            "baseline_off_cmd": "cd /repo && /venv/bin/python -m pytest -ra -q -p no:cacheprovider --timeout=900 --continue-on-collection-errors",
            "source_commits": [],
            "add_only": True,
        },
        "engines": [{
            "name": "vtlmc", "path": "/verif/vtlmc",
            "serves_properties": sorted(p for p in CHECKS if p in enabled),
            "kind_free_text": "hand-written bounded-exhaustive explorers for Python (program x input enumeration, explicit-state search over API-call histories, schedule enumeration with a preemption bound, fault-point enumeration) driving the real engine behind a parser stand-in",
        }],
        "checks": checks,
        "not_applicable": na,
        "notes": "See DESIGN.md. known_findings.txt lists genuine defects (fixed: / known:).",
    }
    with open(os.path.join(VERIF, "MANIFEST.json"), "w") as f:
        json.dump(m, f, indent=1)
    try:
        import jsonschema
        jsonschema.validate(m, json.load(open("/root/.vp/MANIFEST.schema.json")))
        print("MANIFEST.json valid: %d checks, %d not_applicable" % (len(checks), len(na)))
    except FileNotFoundError:
        print("MANIFEST.json written (schema not found)")


if __name__ == "__main__":
    build()

"""Generates /verif/MANIFEST.json from the table below (python -m vtlmc.manifest)."""
import json
import os

VERIF = os.path.dirname(os.path.dirname(os.path.abspath(__file__)))

BASE_NOTE = ("Trusted base: the front-end stand-in (ANTLR Java runtime 4.11.1 interpreting the repository's serialized "
             "ATNs, label mapping read from Vtl.cpp/bindings.cpp) in place of the compiled C++ parser that cannot be "
             "built offline; conformance shown on the full upstream suite (DESIGN 1.3). ")

# id -> (category, technique, text, note, design_ref, has_thorough)
CHECKS = {
    "C26": ("exploration", "exhaustive enumeration of all raise sites (ast) + executed instantiation + runtime monitor",
            "Every construction site of a coded VTL exception in src/vtlengine is enumerated from the working tree and "
            "executed against the real catalogue; complete finite space, so the right level is exhaustive exploration.",
            BASE_NOTE + "Codes computed at run time with no string constant reaching them are covered only by the monitor.",
            "4/C26", False),
}

NOT_APPLICABLE = {}


def build():
    checks = []
    for pid, (cat, tech, text, note, ref, thorough) in sorted(CHECKS.items()):
        c = {
            "property_id": pid,
            "quick_cmd": "./check %s --tier quick" % pid,
            "evidence_file": "/verif/evidence/%s.json" % pid,
            "replay_cmd_template": "./check %s --replay {path}" % pid,
            "engine": "vtlmc",
            "level_claimed": {"category": cat, "text": text, "design_ref": "DESIGN.md section " + ref},
            "level_note": note,
            "technique": tech,
        }
        if thorough:
            c["thorough_cmd"] = "./check %s --tier thorough" % pid
        checks.append(c)
    props = [json.loads(l)["id"] for l in open(os.path.join(VERIF, "properties.jsonl"))]
    na = []
    for pid in props:
        if pid not in CHECKS:
            na.append({"property_id": pid, "reason": NOT_APPLICABLE.get(pid, "check not built yet (work in progress; see DESIGN.md section 4 for the planned bounded exploration)")})
    m = {
        "version": 1,
        "setup_cmd": "./setup.sh",
        "hooks": {
            "guard": "MEANINGFUL_DATA_VTLENGINE_VERIF",
            "enable": "no source hooks: every seam is installed from the harness process (sys.modules stand-in, monkeypatched connection proxy, threading.settrace); checks export MEANINGFUL_DATA_VTLENGINE_VERIF=1 only for uniformity",
            "baseline_off_cmd": "cd /repo && /venv/bin/python -m pytest -ra -q -p no:cacheprovider --timeout=900 --continue-on-collection-errors",
            "source_commits": [],
            "add_only": True,
        },
        "engines": [{
            "name": "vtlmc", "path": "/verif/vtlmc",
            "serves_properties": sorted(CHECKS),
            "kind_free_text": "hand-written bounded-exhaustive explorers for Python (program x input enumeration, explicit-state search over API-call histories, schedule enumeration with a preemption bound, fault-point enumeration) driving the real engine behind a parser stand-in",
        }],
        "checks": checks,
        "not_applicable": na,
        "notes": "See DESIGN.md. known_findings.txt lists genuine defects (fixed: / known:).",
    }
    with open(os.path.join(VERIF, "MANIFEST.json"), "w") as f:
        json.dump(m, f, indent=1)
    try:
        import jsonschema
        jsonschema.validate(m, json.load(open("/root/.vp/MANIFEST.schema.json")))
        print("MANIFEST.json valid: %d checks, %d not_applicable" % (len(checks), len(na)))
    except FileNotFoundError:
        print("MANIFEST.json written (schema not found)")


if __name__ == "__main__":
    build()

"""C22 oracle: deep, *observable-content* snapshots of caller-owned arguments and their diff.

A snapshot is a plain tree of tuples / lists / strings (no reference to the snapshotted object is
needed to compare two of them).  Only what a caller can observe through the public pandas / dict /
list / file API is recorded:

* DataFrame : column labels (value, python type, order), columns-Index type/dtype/names, index
  (type, dtype, names, values), dtype of every column (``repr`` -> categories are part of it), every
  cell (NaN / NA / NaT / None kept apart, other cells as (python type name, repr)), ``df.flags``
  (allows_duplicate_labels) and ``df.attrs``.  NOT recorded on purpose: block layout, ``id`` of the
  backing arrays, ``writeable`` of the arrays pandas hands out (lazy consolidation and copy-on-write
  bookkeeping are not visible changes).
* ndarray   : dtype, shape, cells, ``flags.writeable`` (only used for arrays the *caller* created and
  still holds, e.g. the read-only arrays a frame was built on).
* dict      : key -> snapshot of the value, plus ``id``/type of every value (so that "the entry now
  holds another object" is seen even when the new object compares equal).  Key order is not compared
  (== semantics of dict).
* list / tuple / UserList : element snapshots in order.
* Path      : the bytes of the file (sha1 + length; size + mtime above 4 MB), or for a directory the sorted
  listing with the bytes of every file below it.
* msgspec Structs (pysdmx Schema, Component, PandasDataset, TransformationScheme, ...) : field by
  field.
* anything else : (type name, repr) and a deepcopy compared with ==.
"""
import collections
import copy
import hashlib
import math
import os
from pathlib import Path

_ATOMS = (str, bytes, int, float, bool, type(None), complex)


def _cell(v):
    if v is None:
        return "None"
    try:
        import pandas as pd
        if v is pd.NA:
            return "NA"
        if v is pd.NaT:
            return "NaT"
    except Exception:  # pragma: no cover
        pass
    if isinstance(v, float) and math.isnan(v):
        return "nan:" + type(v).__name__
    return type(v).__name__ + ":" + repr(v)


def _cells(seq):
    return [_cell(v) for v in seq]


def _index(ix):
    return {"type": type(ix).__name__, "dtype": repr(ix.dtype), "names": [repr(n) for n in ix.names],
            "values": _cells(ix.tolist())}


def snap_frame(df):
    cols = df.columns
    out = {"t": "df", "id": id(df), "pytype": type(df).__name__,
           "columns": _cells(cols.tolist()),
           "columns_index": {"type": type(cols).__name__, "dtype": repr(cols.dtype), "names": [repr(n) for n in cols.names]},
           "index": _index(df.index),
           "dtypes": [repr(d) for d in df.dtypes.tolist()],
           "values": [_cells(df.iloc[:, j].tolist()) for j in range(df.shape[1])],
           "flags": {"allows_duplicate_labels": bool(df.flags.allows_duplicate_labels)},
           "attrs": copy.deepcopy(dict(df.attrs))}
    return out


def snap_array(a):
    return {"t": "ndarray", "id": id(a), "dtype": repr(a.dtype), "shape": tuple(a.shape),
            "values": _cells(a.ravel().tolist()), "writeable": bool(a.flags.writeable)}


def _file_sig(p):
    try:
        st = os.stat(p)
        if st.st_size > 4 << 20:      # large corpus inputs: size + mtime instead of the bytes
            return "%d:mtime=%d" % (st.st_size, st.st_mtime_ns)
        b = open(p, "rb").read()
    except OSError as e:
        return "unreadable:" + type(e).__name__
    return "%d:%s" % (len(b), hashlib.sha1(b).hexdigest())


def snap_path(p):
    s = str(p)
    out = {"t": "path", "id": id(p), "str": s, "pytype": type(p).__name__}
    if os.path.isdir(s):
        files = {}
        for dp, dns, fns in os.walk(s):
            dns.sort()
            for fn in sorted(fns):
                full = os.path.join(dp, fn)
                files[os.path.relpath(full, s)] = _file_sig(full)
        out["kind"] = "dir"
        out["files"] = files
    elif os.path.exists(s):
        out["kind"] = "file"
        out["files"] = {"": _file_sig(s)}
    else:
        out["kind"] = "missing"
        out["files"] = {}
    return out


def snap(obj, keep=None, ignore_paths=()):
    """-> snapshot tree.  `keep` (a list) receives a reference to every visited object so that ids stay unique
    for as long as the caller keeps the list."""
    if keep is not None:
        keep.append(obj)
    try:
        import pandas as pd
        import numpy as np
    except Exception:  # pragma: no cover
        pd = np = None
    if pd is not None and isinstance(obj, pd.DataFrame):
        return snap_frame(obj)
    if pd is not None and isinstance(obj, pd.Series):
        return {"t": "series", "id": id(obj), "dtype": repr(obj.dtype), "name": repr(obj.name),
                "index": _index(obj.index), "values": _cells(obj.tolist())}
    if np is not None and isinstance(obj, np.ndarray):
        return snap_array(obj)
    if isinstance(obj, Path):
        return snap_path(obj)
    if isinstance(obj, _ATOMS):
        return {"t": "atom", "v": _cell(obj)}
    if isinstance(obj, dict):
        return {"t": "dict", "id": id(obj), "pytype": type(obj).__name__,
                "items": {_cell(k): snap(v, keep) for k, v in obj.items()},
                "idents": {_cell(k): (id(v), type(v).__name__) for k, v in obj.items()}}
    if isinstance(obj, (list, tuple, collections.UserList)):
        seq = list(obj)
        return {"t": "list", "id": id(obj), "pytype": type(obj).__name__,
                "items": [snap(v, keep) for v in seq],
                "idents": [(id(v), type(v).__name__) for v in seq]}
    fields = getattr(type(obj), "__struct_fields__", None)
    if fields is not None:
        return {"t": "struct", "id": id(obj), "pytype": type(obj).__name__,
                "fields": {f: snap(getattr(obj, f), keep) for f in fields},
                "idents": {f: (id(getattr(obj, f)), type(getattr(obj, f)).__name__) for f in fields}}
    try:
        dc = copy.deepcopy(obj)
    except Exception:
        dc = None
    return {"t": "opaque", "id": id(obj), "pytype": type(obj).__name__, "repr": repr(obj)[:2000], "copy": dc}


_IMMUTABLE_TYPES = {"str", "bytes", "int", "float", "bool", "NoneType", "complex"}


def _ident_changed(a, b):
    """identity of a contained object changed in a way a caller can see (`is`): ignore immutable atoms"""
    if a == b:
        return False
    if a[1] == b[1] and a[1] in _IMMUTABLE_TYPES:
        return False  # another-but-equal str/int object is not observable
    return True


def diff(a, b, path="", owner=None):
    """-> list of {path, node (snapshot node that owns the change: nearest df/dict/list/path/struct), kind, detail}"""
    out = []

    def emit(node, kind, detail, p=path):
        out.append({"path": p or "<arg>", "node": node, "kind": kind, "detail": detail})

    if a["t"] != b["t"]:
        emit(owner or a, "value-replaced", "%s became %s" % (_brief(a), _brief(b)))
        return out
    t = a["t"]
    if t == "atom":
        if a["v"] != b["v"]:
            emit(owner or a, "value-changed", "%s -> %s" % (a["v"], b["v"]))
        return out
    if t == "df":
        if a["pytype"] != b["pytype"]:
            emit(a, "type-changed", "%s -> %s" % (a["pytype"], b["pytype"]))
        ca, cb = a["columns"], b["columns"]
        shape_same = True
        if ca != cb:
            shape_same = False
            if len(ca) == len(cb) and sorted(ca) == sorted(cb):
                emit(a, "columns-reordered", "%s -> %s" % (ca, cb))
                shape_same = False
            elif len(ca) == len(cb):
                ren = [(x, y) for x, y in zip(ca, cb) if x != y]
                emit(a, "columns-renamed", "; ".join("%s -> %s" % xy for xy in ren))
                shape_same = True  # positional comparison of the rest stays meaningful
            else:
                added = [c for c in cb if c not in ca]
                removed = [c for c in ca if c not in cb]
                if added:
                    emit(a, "column-added", "new column(s) %s (columns now %s)" % (added, cb))
                if removed:
                    emit(a, "column-removed", "lost column(s) %s (columns now %s)" % (removed, cb))
                if not added and not removed:
                    emit(a, "columns-changed", "%s -> %s" % (ca, cb))
        if a["columns_index"] != b["columns_index"]:
            emit(a, "columns-index-changed", "%s -> %s" % (a["columns_index"], b["columns_index"]))
        if a["index"] != b["index"]:
            emit(a, "index-changed", "%s -> %s" % (_short(a["index"]), _short(b["index"])))
        # per-column comparison: positional when the shape is the same, else by label for the common labels
        if shape_same and len(ca) == len(cb):
            pairs = [(ca[j], j, j) for j in range(len(ca))]
        else:
            pairs = [(c, ca.index(c), cb.index(c)) for c in ca if c in cb and ca.count(c) == 1 and cb.count(c) == 1]
        dt = [(c, a["dtypes"][i], b["dtypes"][j]) for c, i, j in pairs if a["dtypes"][i] != b["dtypes"][j]]
        if dt:
            emit(a, "dtype-changed", "; ".join("%s: %s -> %s" % x for x in dt))
        vals = []
        for c, i, j in pairs:
            va, vb = a["values"][i], b["values"][j]
            if va != vb:
                if len(va) != len(vb):
                    vals.append("%s: %d rows -> %d rows" % (c, len(va), len(vb)))
                else:
                    k = next(k for k in range(len(va)) if va[k] != vb[k])
                    vals.append("%s[row %d]: %s -> %s" % (c, k, va[k], vb[k]))
        if vals:
            emit(a, "values-changed", "; ".join(vals))
        if a["flags"] != b["flags"]:
            emit(a, "flags-changed", "%s -> %s" % (a["flags"], b["flags"]))
        if a["attrs"] != b["attrs"]:
            emit(a, "attrs-changed", "%s -> %s" % (a["attrs"], b["attrs"]))
        return out
    if t == "series":
        for f in ("dtype", "name", "index", "values"):
            if a[f] != b[f]:
                emit(a, "series-%s-changed" % f, "%s -> %s" % (_short(a[f]), _short(b[f])))
        return out
    if t == "ndarray":
        for f, kind in (("dtype", "dtype-changed"), ("shape", "shape-changed"), ("values", "values-changed"),
                        ("writeable", "writeable-flag-changed")):
            if a[f] != b[f]:
                emit(a, kind, "%s -> %s" % (_short(a[f]), _short(b[f])))
        return out
    if t == "path":
        if a["str"] != b["str"]:
            emit(a, "path-changed", "%s -> %s" % (a["str"], b["str"]))
        if a["kind"] != b["kind"]:
            emit(a, "file-removed" if b["kind"] == "missing" else "file-kind-changed", "%s: %s -> %s" % (a["str"], a["kind"], b["kind"]))
        else:
            fa, fb = a["files"], b["files"]
            for k in sorted(set(fa) | set(fb)):
                name = os.path.join(a["str"], k) if k else a["str"]
                if k not in fb:
                    emit(a, "file-removed", name)
                elif k not in fa:
                    emit(a, "file-added", name)
                elif fa[k] != fb[k]:
                    emit(a, "file-modified", "%s: %s -> %s" % (name, fa[k], fb[k]))
        return out
    if t == "dict":
        if a["pytype"] != b["pytype"]:
            emit(a, "type-changed", "%s -> %s" % (a["pytype"], b["pytype"]))
        ia, ib = a["items"], b["items"]
        for k in ia:
            p = "%s[%s]" % (path, k.split(":", 1)[-1])
            if k not in ib:
                out.append({"path": p, "node": a, "kind": "key-removed", "detail": "entry %s (%s) is gone" % (k, _brief(ia[k])),
                            "old": ia[k]})
                continue
            if ia[k]["t"] != ib[k]["t"] or _ident_changed(a["idents"][k], b["idents"][k]):
                out.append({"path": p, "node": a, "kind": "value-replaced",
                            "detail": "entry %s held %s, now holds %s" % (k, _brief(ia[k]), _brief(ib[k])), "old": ia[k]})
                continue
            out.extend(diff(ia[k], ib[k], p, a))
        for k in ib:
            if k not in ia:
                out.append({"path": "%s[%s]" % (path, k.split(":", 1)[-1]), "node": a, "kind": "key-added",
                            "detail": "new entry %s (%s)" % (k, _brief(ib[k])), "old": None})
        return out
    if t == "list":
        if a["pytype"] != b["pytype"]:
            emit(a, "type-changed", "%s -> %s" % (a["pytype"], b["pytype"]))
        if len(a["items"]) != len(b["items"]):
            emit(a, "length-changed", "%d -> %d elements" % (len(a["items"]), len(b["items"])))
            return out
        for i, (x, y) in enumerate(zip(a["items"], b["items"])):
            p = "%s[%d]" % (path, i)
            if x["t"] != y["t"] or _ident_changed(a["idents"][i], b["idents"][i]):
                out.append({"path": p, "node": a, "kind": "value-replaced",
                            "detail": "element %d was %s, now %s" % (i, _brief(x), _brief(y)), "old": x})
                continue
            out.extend(diff(x, y, p, a))
        return out
    if t == "struct":
        if a["pytype"] != b["pytype"]:
            emit(a, "type-changed", "%s -> %s" % (a["pytype"], b["pytype"]))
            return out
        for f in a["fields"]:
            p = "%s.%s" % (path, f)
            x, y = a["fields"][f], b["fields"][f]
            if x["t"] != y["t"] or _ident_changed(a["idents"][f], b["idents"][f]):
                out.append({"path": p, "node": a, "kind": "value-replaced",
                            "detail": "field %s was %s, now %s" % (f, _brief(x), _brief(y)), "old": x})
                continue
            out.extend(diff(x, y, p, a))
        return out
    if t == "opaque":
        same = a["pytype"] == b["pytype"] and a["repr"] == b["repr"]
        if same and a["copy"] is not None and b["copy"] is not None:
            try:
                same = bool(a["copy"] == b["copy"])
            except Exception:
                pass
        if not same:
            emit(owner or a, "value-changed", "%s -> %s" % (a["repr"][:200], b["repr"][:200]))
        return out
    raise AssertionError("unknown snapshot node %r" % t)


def _brief(n):
    t = n["t"]
    if t == "atom":
        return n["v"][:80]
    if t == "df":
        return "DataFrame(columns=%s, %d rows)" % (n["columns"], len(n["index"]["values"]))
    if t == "path":
        return "%s(%s)" % (n["pytype"], n["str"])
    if t in ("dict", "list", "struct"):
        return "%s" % n["pytype"]
    return n.get("pytype", t)


def _short(x, n=300):
    s = repr(x)
    return s if len(s) <= n else s[:n] + "..."


def contains_mutable(n):
    """does the snapshot contain anything a callee could modify at all? (non-triviality of a case)"""
    t = n["t"]
    if t == "atom":
        return False
    if t == "path":
        return n["kind"] != "missing"
    return True


def count_nodes(n, acc=None):
    acc = acc if acc is not None else {}
    acc[n["t"]] = acc.get(n["t"], 0) + 1
    if n["t"] == "dict":
        for v in n["items"].values():
            count_nodes(v, acc)
    elif n["t"] == "list":
        for v in n["items"]:
            count_nodes(v, acc)
    elif n["t"] == "struct":
        for v in n["fields"].values():
            count_nodes(v, acc)
    return acc

"""Reference calendar (oracle O3 of DESIGN.md) for C08 / C21.

Plain Python on ``datetime.date`` only; it shares no code with the engine (nothing under /repo is imported).
A period is a tuple ``(indicator, year, number)`` with indicator in A S Q M W D (annual: number 1).
Weeks are ISO-8601 weeks (Monday .. Sunday, week 1 contains 4 January); days are ordinal days of the year.
"""
import datetime as _dt

INDICATORS = ("A", "S", "Q", "M", "W", "D")
RANK = {"D": 1, "W": 2, "M": 3, "Q": 4, "S": 5, "A": 6}          # higher = coarser
_MONTHS_PER = {"A": 12, "S": 6, "Q": 3, "M": 1}
_MDAYS = (31, 28, 31, 30, 31, 30, 31, 31, 30, 31, 30, 31)


def is_leap(y):
    return y % 4 == 0 and (y % 100 != 0 or y % 400 == 0)


def iso_weeks(y):
    """53 iff 1 January is a Thursday, or a Wednesday in a leap year (ISO 8601 'long year')"""
    wd = _dt.date(y, 1, 1).isoweekday()
    return 53 if wd == 4 or (wd == 3 and is_leap(y)) else 52


def periods_in_year(ind, y):
    if ind == "W":
        return iso_weeks(y)
    if ind == "D":
        return 366 if is_leap(y) else 365
    return 12 // _MONTHS_PER[ind]


def valid(p):
    ind, y, n = p
    return ind in RANK and 1 <= n <= periods_in_year(ind, y)


def year_periods(ind, y):
    return [(ind, y, n) for n in range(1, periods_in_year(ind, y) + 1)]


def succ(p):
    ind, y, n = p
    return (ind, y, n + 1) if n < periods_in_year(ind, y) else (ind, y + 1, 1)


def pred(p):
    ind, y, n = p
    return (ind, y, n - 1) if n > 1 else (ind, y - 1, periods_in_year(ind, y - 1))


class Timeline:
    """all periods of one indicator for years y0..y1, built by iterating succ(); shift = move k steps on it"""

    def __init__(self, ind, y0, y1):
        self.items, p = [], (ind, y0, 1)
        while p[1] <= y1:
            self.items.append(p)
            p = succ(p)
        self.index = {q: i for i, q in enumerate(self.items)}

    def shift(self, p, k):
        i = self.index[p] + k
        if i < 0 or i >= len(self.items):
            raise IndexError("shift leaves the timeline")
        return self.items[i]

    def between(self, a, b):
        return self.items[self.index[a]: self.index[b] + 1]


def month_days(y, m):
    return 29 if m == 2 and is_leap(y) else _MDAYS[m - 1]


def start_date(p):
    ind, y, n = p
    if ind == "D":
        return _dt.date(y, 1, 1) + _dt.timedelta(days=n - 1)
    if ind == "W":
        return _dt.date.fromisocalendar(y, n, 1)
    return _dt.date(y, (n - 1) * _MONTHS_PER[ind] + 1, 1)


def end_date(p):
    ind, y, n = p
    if ind == "D":
        return start_date(p)
    if ind == "W":
        return _dt.date.fromisocalendar(y, n, 7)
    m = n * _MONTHS_PER[ind]
    return _dt.date(y, m, month_days(y, m))


def day_of_year(d):
    return d.toordinal() - _dt.date(d.year, 1, 1).toordinal() + 1


def period_of(ind, d):
    """the period of indicator ``ind`` that contains the date"""
    if ind == "D":
        return ("D", d.year, day_of_year(d))
    if ind == "W":
        iy, iw, _ = d.isocalendar()
        return ("W", iy, iw)
    return (ind, d.year, (d.month - 1) // _MONTHS_PER[ind] + 1)


def coarser(p, target):
    """acceptable results of converting p to a coarser indicator: the target periods holding its first and its last
    day (one element when p is nested in a target period, two for a week straddling a month / year border)"""
    if RANK[target] < RANK[p[0]]:
        raise ValueError("target is finer")
    return {period_of(target, start_date(p)), period_of(target, end_date(p))}


def add_months(d, k):
    """same day of month k months away, clipped to the last day of the target month"""
    t = d.year * 12 + (d.month - 1) + k
    y, m = divmod(t, 12)
    return _dt.date(y, m + 1, min(d.day, month_days(y, m + 1)))


def add(d, k, unit):
    if unit == "D":
        return d + _dt.timedelta(days=k)
    if unit == "W":
        return d + _dt.timedelta(days=7 * k)
    return add_months(d, k * _MONTHS_PER[unit])


def parse_period(s):
    """'2020', '2020A', '2020-A1', '2020Q1', '2020-Q1', '2020-M01', '2020W53', '2020-D366' -> period tuple"""
    s = str(s)
    y, rest = int(s[:4]), s[4:].lstrip("-")
    if rest == "" or rest[0] == "A":
        return ("A", y, 1)
    return (rest[0], y, int(rest[1:]))


def selftest():
    for y in range(1, 10000):
        assert iso_weeks(y) == _dt.date(y, 12, 28).isocalendar()[1], y
        assert is_leap(y) == ((_dt.date(y, 3, 1) - _dt.date(y, 2, 28)).days == 2), y
    for ind in INDICATORS:
        tl = Timeline(ind, 1990, 2030)
        for a, b in zip(tl.items, tl.items[1:]):
            assert pred(b) == a and valid(a) and end_date(a) + _dt.timedelta(days=1) == start_date(b), (a, b)
            assert period_of(ind, start_date(a)) == a == period_of(ind, end_date(a)), a
    return True

"""The corpus: recorded public-API calls of the upstream test suite (DESIGN §2.6).

index.jsonl holds one record per distinct call (script text, structure / datapoint arguments as paths
into /repo/tests or serialised in-memory frames, keyword arguments, recorded outcome).
"""
import glob
import hashlib
import json
import os
from pathlib import Path

from vtlmc import harness

INDEX = os.path.join(harness.VERIF, "corpus", "index.jsonl")


def _paths(x, acc):
    if isinstance(x, dict):
        if "$path" in x:
            acc.append(x["$path"])
        for v in x.values():
            _paths(v, acc)
    elif isinstance(x, list):
        for v in x:
            _paths(v, acc)


def _has_opaque(x):
    if isinstance(x, dict):
        return "$opaque" in x or any(_has_opaque(v) for v in x.values())
    if isinstance(x, list):
        return any(_has_opaque(v) for v in x)
    return False


def build_index(harvest_dir, out=INDEX):
    seen, n_in, n_out, dropped = set(), 0, 0, {"tmp-path": 0, "opaque": 0, "dup": 0}
    os.makedirs(os.path.dirname(out), exist_ok=True)
    recs = []
    for f in sorted(glob.glob(os.path.join(harvest_dir, "*.jsonl"))):
        for line in open(f, encoding="utf-8"):
            n_in += 1
            r = json.loads(line)
            ps = []
            _paths(r["args"], ps)
            _paths(r["kwargs"], ps)
            if any(not p.startswith(harness.REPO + "/") for p in ps):
                dropped["tmp-path"] += 1
                continue
            if _has_opaque(r["args"]) or _has_opaque(r["kwargs"]):
                dropped["opaque"] += 1
                continue
            if r.get("env"):
                r["env"] = {k: v for k, v in r["env"].items() if k not in ("VTL_TEMP_DIRECTORY",)}
            key = hashlib.sha1(json.dumps([r["fn"], r["args"], r["kwargs"], r.get("env")], sort_keys=True).encode()).hexdigest()
            if key in seen:
                dropped["dup"] += 1
                continue
            seen.add(key)
            r["id"] = key[:12]
            r["test"] = r.get("test", "").split(" ")[0]
            recs.append(r)
    recs.sort(key=lambda r: (r["fn"], r["test"], r["id"]))
    with open(out, "w", encoding="utf-8") as fo:
        for r in recs:
            fo.write(json.dumps(r, sort_keys=True) + "\n")
            n_out += 1
    return n_in, n_out, dropped


def dec(x):
    import pandas as pd
    if isinstance(x, dict):
        if "$path" in x:
            return Path(x["$path"])
        if "$df" in x:
            d = x["$df"]
            df = pd.DataFrame(d["data"], columns=d["columns"])
            return df
        if "$dict" in x:
            return {dec(k): dec(v) for k, v in x["$dict"]}
        return {k: dec(v) for k, v in x.items()}
    if isinstance(x, list):
        return [dec(v) for v in x]
    return x


def load(fn=None, outcome=None):
    out = []
    if not os.path.exists(INDEX):
        return out
    for line in open(INDEX, encoding="utf-8"):
        r = json.loads(line)
        if fn and r["fn"] != fn:
            continue
        if outcome == "ok" and r["outcome"] != "ok":
            continue
        if outcome == "fail" and r["outcome"] == "ok":
            continue
        ps = []
        _paths(r["args"], ps)
        _paths(r["kwargs"], ps)
        if any(not os.path.exists(p) for p in ps):
            continue
        out.append(r)
    return out


def materialise(r):
    """-> (args list, kwargs dict) ready to be passed to the API function"""
    return dec(r["args"]), dec(r["kwargs"])


RUN_PARAMS = ["script", "data_structures", "datapoints", "value_domains", "external_routines",
              "time_period_output_format", "return_only_persistent", "output_folder", "scalar_values",
              "sdmx_mappings", "output_format"]


def run_kwargs(r):
    """normalise a recorded run() call to keyword form"""
    a, k = materialise(r)
    kw = dict(zip(RUN_PARAMS, a))
    kw.update(k)
    return kw


if __name__ == "__main__":
    import sys
    print(build_index(sys.argv[1]))

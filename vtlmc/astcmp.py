"""Structural comparison of vtlengine AST dataclass trees that ignores positions.

Used by C24 (prettify) and C25 (generate_sdmx): two scripts "mean the same" at the syntactic level when
their ASTs have the same node classes, operators, names, literal *values and types* in the same shape.
Only the four position fields (line/column start/stop) are ignored.  Attributes the constructor attaches
outside the dataclass fields (``is_implicit_role``, ``role`` on aggregate targets) are compared too,
because the renderer and the interpreter read them.

Nothing here imports the engine at module level (callers ``harness.boot()`` first).
"""
import dataclasses
import enum

POSITION_FIELDS = frozenset(("line_start", "column_start", "line_stop", "column_stop"))


def _is_node(x):
    return dataclasses.is_dataclass(x) and not isinstance(x, type) and all(hasattr(x, f) for f in POSITION_FIELDS)


def _attrs(node):
    """compared attributes of a node: dataclass fields + dynamic instance attributes, minus positions"""
    d = dict(vars(node))
    for f in dataclasses.fields(node):
        d.setdefault(f.name, getattr(node, f.name, None))
    d = {k: v for k, v in d.items() if k not in POSITION_FIELDS}
    _explicit_defaults(node, d)
    return d


# Optional parameters whose omission and whose explicit default spelling are the same program (VTL 2.1 RM:
# check_hierarchy: non_null / dataset / invalid; hierarchy: non_null / rule / computed; check_datapoint:
# invalid; fill_time_series: all).  The constructor records "omitted" as None / [], so both spellings are
# mapped onto the default before comparing; a *non-default* value is never touched.
_HR_DEFAULTS = {"check_hierarchy": {"validation_mode": "non_null", "input_mode": "dataset", "output": "invalid"},
                "hierarchy": {"validation_mode": "non_null", "input_mode": "rule", "output": "computed"}}


def _mode(v, default):
    return ("mode", default if v is None else getattr(v, "value", v))


def _explicit_defaults(node, d):
    cn = type(node).__name__
    if cn == "HROperation" and d.get("op") in _HR_DEFAULTS:
        for k, dv in _HR_DEFAULTS[d["op"]].items():
            if k in d:
                d[k] = _mode(d[k], dv)
    elif cn == "DPValidation" and "output" in d:
        d["output"] = _mode(d["output"], "invalid")
    elif cn == "ParamOp" and d.get("op") == "fill_time_series":
        ps = d.get("params")
        if ps == [] or ps is None:
            d["params"] = [("mode", "all")]
        elif isinstance(ps, list) and len(ps) == 1 and getattr(ps[0], "value", None) in ("all", "single"):
            d["params"] = [("mode", ps[0].value)]


def norm(x):
    """hashable canonical form (positions dropped, scalar types kept apart: 1 != 1.0 != True)"""
    if _is_node(x):
        return ("node", type(x).__name__, tuple((k, norm(v)) for k, v in sorted(_attrs(x).items())))
    if isinstance(x, (list, tuple)):
        return ("list", tuple(norm(v) for v in x))
    if isinstance(x, dict):
        return ("dict", tuple(sorted((repr(k), norm(v)) for k, v in x.items())))
    if x is None:
        return None
    if isinstance(x, enum.Enum):
        return ("enum", type(x).__name__, x.value)
    if isinstance(x, type):
        return ("type", x.__name__)
    if isinstance(x, bool):
        return ("bool", x)
    if isinstance(x, int):
        return ("int", x)
    if isinstance(x, float):
        return ("float", repr(x))
    if isinstance(x, str):
        return ("str", x)
    comps = getattr(x, "components", None)
    if isinstance(comps, dict):  # Model.Dataset (eval output signature)
        return ("dataset", getattr(x, "name", None), tuple(norm(c) for c in comps.values()))
    if hasattr(x, "data_type") and hasattr(x, "role"):  # Model.Component
        return ("component", getattr(x, "name", None), norm(x.data_type), norm(x.role), getattr(x, "nullable", None))
    r = repr(x)
    if " at 0x" in r:  # default repr carries an address: an *instance* of a class (e.g. String() vs the class String)
        return ("instance", type(x).__name__)
    return ("obj", type(x).__name__, r)


def _short(x, n=80):
    if _is_node(x):
        s = type(x).__name__
        for k in ("op", "value", "name"):
            if hasattr(x, k) and not _is_node(getattr(x, k)) and not isinstance(getattr(x, k), list):
                s += "(%s=%r)" % (k, getattr(x, k))
                break
        return s
    if isinstance(x, list):
        return "list[%d]" % len(x)
    s = "%s:%r" % (type(x).__name__, x)
    return s if len(s) <= n else s[:n] + "..."


class Diff:
    """first structural difference: where (path), in which node class / field, the two values"""

    def __init__(self, path, owner, field, a, b, node_a=None, node_b=None):
        self.path = path
        self.owner = owner      # class name of the innermost AST node that contains the difference
        self.field = field      # its attribute
        self.a = a
        self.b = b
        self.node_a = node_a    # that innermost node in the first / second tree (None at the root)
        self.node_b = node_b
        self.reordered = False  # the two values are lists with the same elements in a different order

    def kind(self):
        """coarse description of *what* differs (domain vocabulary for finding keys)"""
        a, b = self.a, self.b
        if _is_node(a) and _is_node(b):
            return "node-class:%s->%s" % (type(a).__name__, type(b).__name__)
        if isinstance(a, list) and isinstance(b, list):
            return "list-reordered" if self.reordered else "list-length"
        ta, tb = type(a).__name__, type(b).__name__
        if _is_node(a):
            ta = "node"
        if _is_node(b):
            tb = "node"
        return "%s->%s" % (ta, tb) if ta != tb else ta

    def __str__(self):
        return "%s: %s.%s %s -> %s" % (self.path or "<root>", self.owner, self.field, _short(self.a), _short(self.b))


def diff(a, b, path="", owner="<root>", field="", na=None, nb=None):
    """-> None when a and b are structurally equal, else a Diff for the first difference (pre-order)"""
    if _is_node(a) and _is_node(b):
        if type(a) is not type(b):
            return Diff(path, owner, field, a, b, na, nb)
        da, db = _attrs(a), _attrs(b)
        for k in sorted(set(da) | set(db)):
            if k not in da or k not in db:
                return Diff(path + "." + k, type(a).__name__, k, da.get(k), db.get(k), a, b)
            d = diff(da[k], db[k], path + "." + k, type(a).__name__, k, a, b)
            if d is not None:
                return d
        return None
    if isinstance(a, (list, tuple)) and isinstance(b, (list, tuple)):
        if len(a) != len(b):
            return Diff(path, owner, field, list(a), list(b), na, nb)
        first = None
        for i, (x, y) in enumerate(zip(a, b)):
            first = diff(x, y, "%s[%d]" % (path, i), owner, field, na, nb)
            if first is not None:
                break
        if first is None:
            return None
        if len(a) > 1 and sorted(map(repr, map(norm, a))) == sorted(map(repr, map(norm, b))):
            d = Diff(path, owner, field, list(a), list(b), na, nb)   # same elements, other order
            d.reordered = True
            return d
        return first
    if norm(a) != norm(b):
        return Diff(path, owner, field, a, b, na, nb)
    return None


def equal(a, b):
    return diff(a, b) is None


def walk(x):
    """every AST node below (and including) x, pre-order"""
    if _is_node(x):
        yield x
        for v in _attrs(x).values():
            yield from walk(v)
    elif isinstance(x, (list, tuple)):
        for v in x:
            yield from walk(v)
    elif isinstance(x, dict):
        for v in x.values():
            yield from walk(v)


def node_classes(x):
    return sorted({type(n).__name__ for n in walk(x)})

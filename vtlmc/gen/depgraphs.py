"""Dependency-graph program generator shared by C12, C13, C25.

A graph over N statements S1..SN and K global inputs I1..IK: statement i reads a non-empty subset of
{S1..S(i-1)} u {I1..IK}.  ``all_graphs`` enumerates every such graph (no sampling).  All datasets share one
structure (Id_1 Integer identifier, Me_1 Number measure); input Ij holds, for Id_1 in {1, 2}, the values
10^j and 2*10^j, so a sum of operands encodes exactly which inputs reached it (with multiplicity).
"""
import itertools


def nonempty_subsets(xs):
    xs = list(xs)
    for r in range(1, len(xs) + 1):
        for c in itertools.combinations(xs, r):
            yield c


def all_graphs(n, k):
    """every graph as a tuple of operand tuples, one per statement"""
    inputs = ["I%d" % j for j in range(1, k + 1)]

    def rec(i, acc):
        if i > n:
            yield tuple(acc)
            return
        avail = ["S%d" % s for s in range(1, i)] + inputs
        for ops in nonempty_subsets(avail):
            yield from rec(i + 1, acc + [ops])
    yield from rec(1, [])


def expr(ops, shape="sum"):
    if len(ops) == 1:
        return "%s + 0" % ops[0]
    return " + ".join(ops)


def render(graph, persist_mask, order=None):
    """script text; persist_mask[i] True -> '<-' ; order = permutation of statement indices (textual order)"""
    n = len(graph)
    order = list(order) if order is not None else list(range(n))
    lines = []
    for i in order:
        lines.append("S%d %s %s;" % (i + 1, "<-" if persist_mask[i] else ":=", expr(graph[i])))
    return "\n".join(lines)


def structures(k):
    comps = [{"name": "Id_1", "type": "Integer", "role": "Identifier", "nullable": False},
             {"name": "Me_1", "type": "Number", "role": "Measure", "nullable": True}]
    return {"datasets": [{"name": "I%d" % j, "DataStructure": comps} for j in range(1, k + 1)]}


def input_values(j):
    return {1: float(10 ** j), 2: float(2 * 10 ** j)}


def frames(k):
    import pandas as pd
    return {"I%d" % j: pd.DataFrame({"Id_1": [1, 2], "Me_1": [input_values(j)[1], input_values(j)[2]]}) for j in range(1, k + 1)}


def expected(graph, k):
    """reference values: name -> {id: value}"""
    val = {"I%d" % j: input_values(j) for j in range(1, k + 1)}
    for i, ops in enumerate(graph):
        val["S%d" % (i + 1)] = {r: sum(val[o][r] for o in ops) for r in (1, 2)}
    return val


def reads(graph):
    return {"S%d" % (i + 1): set(ops) for i, ops in enumerate(graph)}


# ---------------------------------------------------------------------------------------------------
# clause-reference graphs: results of other statements (scalars) referenced from INSIDE a clause
# ---------------------------------------------------------------------------------------------------

def clause_graphs(n_ds=2, n_sc=2):
    """every graph of n_sc scalar statements (sc_j := sum of a subset of earlier scalars + j) and n_ds dataset
    statements (S_i := <base>[calc Me_1 := Me_1 + <non-empty subset of scalars>], base = I1 or an earlier dataset)."""
    scs = ["sc%d" % j for j in range(1, n_sc + 1)]

    def sc_opts(j):
        earlier = scs[:j]
        return [c for r in range(0, len(earlier) + 1) for c in itertools.combinations(earlier, r)]

    def ds_opts(i):
        bases = ["I1"] + ["S%d" % s for s in range(1, i + 1)]
        subsets = [c for r in range(1, len(scs) + 1) for c in itertools.combinations(scs, r)]
        return [(b, c) for b in bases for c in subsets]
    for sc_reads in itertools.product(*[sc_opts(j) for j in range(n_sc)]):
        for ds_defs in itertools.product(*[ds_opts(i) for i in range(n_ds)]):
            yield (tuple(sc_reads), tuple(ds_defs))


def clause_statements(graph):
    """-> list of (name, text-after-assignment, reads)"""
    sc_reads, ds_defs = graph
    out = []
    for j, reads in enumerate(sc_reads):
        out.append(("sc%d" % (j + 1), " + ".join(list(reads) + [str(j + 1)]), set(reads)))
    for i, (base, scs) in enumerate(ds_defs):
        out.append(("S%d" % (i + 1), "%s[calc Me_1 := Me_1 + %s]" % (base, " + ".join(scs)), {base} | set(scs)))
    return out


def clause_render(graph, mask, order=None):
    st = clause_statements(graph)
    order = list(order) if order is not None else list(range(len(st)))
    return "\n".join("%s %s %s;" % (st[i][0], "<-" if mask[i] else ":=", st[i][1]) for i in order)


def clause_expected(graph):
    sc_reads, ds_defs = graph
    val = {"I1": input_values(1)}
    for j, reads in enumerate(sc_reads):
        val["sc%d" % (j + 1)] = sum(val[r] for r in reads) + (j + 1)
    for i, (base, scs) in enumerate(ds_defs):
        add = sum(val[s] for s in scs)
        val["S%d" % (i + 1)] = {r: val[base][r] + add for r in (1, 2)}
    return val

"""Dependency-graph program generator shared by C12, C13, C25.

A graph over N statements S1..SN and K global inputs I1..IK: statement i reads a non-empty subset of
{S1..S(i-1)} u {I1..IK}.  ``all_graphs`` enumerates every such graph (no sampling).  All datasets share one
structure (Id_1 Integer identifier, Me_1 Number measure); input Ij holds, for Id_1 in {1, 2}, the values
10^j and 2*10^j, so a sum of operands encodes exactly which inputs reached it (with multiplicity).
"""
import itertools


def nonempty_subsets(xs):
    xs = list(xs)
    for r in range(1, len(xs) + 1):
        for c in itertools.combinations(xs, r):
            yield c


def all_graphs(n, k):
    """every graph as a tuple of operand tuples, one per statement"""
    inputs = ["I%d" % j for j in range(1, k + 1)]

    def rec(i, acc):
        if i > n:
            yield tuple(acc)
            return
        avail = ["S%d" % s for s in range(1, i)] + inputs
        for ops in nonempty_subsets(avail):
            yield from rec(i + 1, acc + [ops])
    yield from rec(1, [])


def expr(ops, shape="sum"):
    if len(ops) == 1:
        return "%s + 0" % ops[0]
    return " + ".join(ops)


def render(graph, persist_mask, order=None):
    """script text; persist_mask[i] True -> '<-' ; order = permutation of statement indices (textual order)"""
    n = len(graph)
    order = list(order) if order is not None else list(range(n))
    lines = []
    for i in order:
        lines.append("S%d %s %s;" % (i + 1, "<-" if persist_mask[i] else ":=", expr(graph[i])))
    return "\n".join(lines)


def structures(k):
    comps = [{"name": "Id_1", "type": "Integer", "role": "Identifier", "nullable": False},
             {"name": "Me_1", "type": "Number", "role": "Measure", "nullable": True}]
    return {"datasets": [{"name": "I%d" % j, "DataStructure": comps} for j in range(1, k + 1)]}


def input_values(j):
    return {1: float(10 ** j), 2: float(2 * 10 ** j)}


def frames(k):
    import pandas as pd
    return {"I%d" % j: pd.DataFrame({"Id_1": [1, 2], "Me_1": [input_values(j)[1], input_values(j)[2]]}) for j in range(1, k + 1)}


def expected(graph, k):
    """reference values: name -> {id: value}"""
    val = {"I%d" % j: input_values(j) for j in range(1, k + 1)}
    for i, ops in enumerate(graph):
        val["S%d" % (i + 1)] = {r: sum(val[o][r] for o in ops) for r in (1, 2)}
    return val


def reads(graph):
    return {"S%d" % (i + 1): set(ops) for i, ops in enumerate(graph)}

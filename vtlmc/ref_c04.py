"""Reference evaluator for VTL 2.1 join expressions (oracle O4 of DESIGN.md, property C04).

Written from the VTL 2.1 reference manual ("Join operators", "Clause operators"); it imports nothing from the
engine and works on ``refbase.DS`` values (ordered components, rows as lists of dicts, ``None`` = null).

Semantics implemented (manual, join operators, "Semantics for scalar / behaviour" paragraphs):

1. the operands are joined *stepwise from left to right* on the join keys: the common identifiers (case A) or
   the ``using`` components (case B).  ``inner_join`` keeps matched combinations, ``left_join`` also keeps the
   left datapoints without a match (components of the right side null), ``full_join`` keeps unmatched datapoints
   of both sides, ``cross_join`` is the cartesian product.  The match itself is a plain nested loop.
2. structure of the virtual dataset: join keys and identifiers once, under their own name (in sub-case B2 the
   keys keep the role they have in the reference dataset and the result identifiers are the reference's);
   every other component once under its own name when it comes from exactly one operand and as
   ``alias#name`` (once per operand) when it comes from several; for ``cross_join`` identifiers are treated
   like any other component.
3. clauses in the fixed order filter, calc | apply | aggr, keep | drop, rename.
4. afterwards the ``alias#`` prefixes are removed; two components with one name -> error; two datapoints
   with the same identifier values -> error.

Not modelled (``NotModelled`` is raised by the parser, the generator of the check never produces them):
user-defined operators, ``sub``, ``having``, ``count``, analytic / time operators, ``nvl`` inside ``using``
(VTL 2.2), dotted dataset names, type checking of expressions (only the value semantics is implemented).
"""
import re

from vtlmc.refbase import AT, DS, ID, ME

KINDS = ("inner_join", "left_join", "full_join", "cross_join")
_PROV = "\0prov"


class RefError(Exception):
    """the reference semantics says the expression is an error.  ``kind`` is "structure" when the error follows from the
    data structures alone (ambiguity, unknown component, illegal identifier configuration) and "data" when it depends
    on the datapoints (duplicated identifier values, null identifier, division by zero)"""

    def __init__(self, msg, kind="structure"):
        Exception.__init__(self, msg)
        self.kind = kind


class NotModelled(Exception):
    """the script uses something outside the evaluator's subset"""


# ---------------------------------------------------------------------------------------------------
# mini-AST.  Expressions are tuples:
#   ("k", value) constant | ("c", "name" or "alias#name") component | ("bin", op, a, b) | ("un", op, a)
#   ("if", c, a, b) | ("fn", name, [args]) | ("agg", op, expr)
# Clauses are tuples:
#   ("filter", expr) | ("calc", [(role, name, expr)]) | ("aggr", [(role, name, ("agg", op, expr))], mode, [names])
#   ("keep", [refs]) | ("drop", [refs]) | ("rename", [(ref, new)]) | ("apply", op, left_alias, right_alias)
# ---------------------------------------------------------------------------------------------------

class Operand:
    def __init__(self, name, alias=None, pre=()):
        self.name, self.alias, self.pre = name, alias, list(pre)


class Join:
    def __init__(self, kind, operands, using=None, body=(), post=()):
        self.kind, self.operands, self.using = kind, list(operands), (list(using) if using else None)
        self.body, self.post = list(body), list(post)


class Ref:
    """a plain dataset reference followed by bracket clauses (``DS_1 [rename ...]``)"""

    def __init__(self, name, post=()):
        self.name, self.post = name, list(post)


# ---------------------------------------------------------------------------------------------------
# rendering to VTL text
# ---------------------------------------------------------------------------------------------------

def r_expr(e):
    t = e[0]
    if t == "k":
        v = e[1]
        if v is None:
            return "null"
        if isinstance(v, bool):
            return "true" if v else "false"
        if isinstance(v, str):
            return '"%s"' % v
        return repr(v)
    if t == "c":
        return e[1]
    if t == "bin":
        return "(%s %s %s)" % (r_expr(e[2]), e[1], r_expr(e[3]))
    if t == "un":
        return "(%s %s)" % (e[1], r_expr(e[2]))
    if t == "if":
        return "(if %s then %s else %s)" % (r_expr(e[1]), r_expr(e[2]), r_expr(e[3]))
    if t == "fn":
        return "%s(%s)" % (e[1], ", ".join(r_expr(a) for a in e[2]))
    if t == "agg":
        return "%s(%s)" % (e[1], r_expr(e[2]))
    raise ValueError(e)


_ROLE_KW = {ID: "identifier ", ME: "", AT: "attribute ", None: ""}


def r_clause(c):
    t = c[0]
    if t == "filter":
        return "filter " + r_expr(c[1])
    if t == "calc":
        return "calc " + ", ".join("%s%s := %s" % (_ROLE_KW[r], n, r_expr(x)) for r, n, x in c[1])
    if t == "aggr":
        s = "aggr " + ", ".join("%s%s := %s" % (_ROLE_KW[r], n, r_expr(x)) for r, n, x in c[1])
        if c[2] in ("by", "except"):
            s += " group %s %s" % (c[2], ", ".join(c[3]))
        return s
    if t in ("keep", "drop"):
        return "%s %s" % (t, ", ".join(c[1]))
    if t == "rename":
        return "rename " + ", ".join("%s to %s" % (a, b) for a, b in c[1])
    if t == "apply":
        return "apply %s %s %s" % (c[2], c[1], c[3])
    raise ValueError(c)


def r_ds(x):
    if isinstance(x, Ref):
        return x.name + "".join(" [%s]" % r_clause(c) for c in x.post)
    ops = []
    for o in x.operands:
        s = o.name + "".join(" [%s]" % r_clause(c) for c in o.pre)
        ops.append(s + (" as %s" % o.alias if o.alias else ""))
    s = "%s(%s" % (x.kind, ", ".join(ops))
    if x.using:
        s += " using " + ", ".join(x.using)
    for c in x.body:
        s += " " + r_clause(c)
    s += ")"
    return s + "".join(" [%s]" % r_clause(c) for c in x.post)


def render(x, result="DS_r", persistent=True):
    return "%s %s %s;" % (result, "<-" if persistent else ":=", r_ds(x))


# ---------------------------------------------------------------------------------------------------
# component-level expressions: three-valued logic with None
# ---------------------------------------------------------------------------------------------------

def _num(v):
    return isinstance(v, (int, float)) and not isinstance(v, bool)


def _arith(op, a, b):
    if a is None or b is None:
        return None
    if op == "||":
        return str(a) + str(b)
    if not (_num(a) and _num(b)):
        raise RefError("arithmetic on non-numbers")
    if op == "+":
        return a + b
    if op == "-":
        return a - b
    if op == "*":
        return a * b
    if op == "/":
        if b == 0:
            raise RefError("division by zero", "data")
        return a / b
    raise NotModelled(op)


def _cmp(op, a, b):
    if a is None or b is None:
        return None
    if op == "=":
        return a == b
    if op == "<>":
        return a != b
    if op == "<":
        return a < b
    if op == ">":
        return a > b
    if op == "<=":
        return a <= b
    if op == ">=":
        return a >= b
    raise NotModelled(op)


def _logic(op, a, b):
    if op == "and":
        if a is False or b is False:
            return False
        return None if (a is None or b is None) else True
    if op == "or":
        if a is True or b is True:
            return True
        return None if (a is None or b is None) else False
    if op == "xor":
        return None if (a is None or b is None) else (a != b)
    raise NotModelled(op)


def ev(e, row, resolve):
    t = e[0]
    if t == "k":
        return e[1]
    if t == "c":
        return row[resolve(e[1])]
    if t == "bin":
        a, b = ev(e[2], row, resolve), ev(e[3], row, resolve)
        if e[1] in ("and", "or", "xor"):
            return _logic(e[1], a, b)
        if e[1] in ("=", "<>", "<", ">", "<=", ">="):
            return _cmp(e[1], a, b)
        return _arith(e[1], a, b)
    if t == "un":
        a = ev(e[2], row, resolve)
        if e[1] == "not":
            return None if a is None else (not a)
        if e[1] == "-":
            return None if a is None else -a
        if e[1] == "+":
            return a
        raise NotModelled(e[1])
    if t == "if":
        c = ev(e[1], row, resolve)
        # manual: the condition selects "then" when true, "else" when false or null
        return ev(e[2], row, resolve) if c is True else ev(e[3], row, resolve)
    if t == "fn":
        args = [ev(a, row, resolve) for a in e[2]]
        if e[1] == "nvl":
            return args[1] if args[0] is None else args[0]
        if e[1] == "isnull":
            return args[0] is None
        if e[1] == "abs":
            return None if args[0] is None else abs(args[0])
        raise NotModelled(e[1])
    raise NotModelled(t)


def refs_of(e, out=None):
    out = [] if out is None else out
    if e[0] == "c":
        out.append(e[1])
    elif e[0] == "bin":
        refs_of(e[2], out), refs_of(e[3], out)
    elif e[0] in ("un", "agg"):
        refs_of(e[2], out)
    elif e[0] == "if":
        refs_of(e[1], out), refs_of(e[2], out), refs_of(e[3], out)
    elif e[0] == "fn":
        for a in e[2]:
            refs_of(a, out)
    return out


def aggregate(op, values):
    vs = [v for v in values if v is not None]
    if not vs:
        return None
    if op == "sum":
        return sum(vs)
    if op == "max":
        return max(vs)
    if op == "min":
        return min(vs)
    if op == "avg":
        return sum(vs) / len(vs)
    raise NotModelled(op)


# ---------------------------------------------------------------------------------------------------
# virtual dataset = DS + the operand aliases it was built from (for alias#name resolution)
# ---------------------------------------------------------------------------------------------------

class VDS:
    def __init__(self, comps, rows, aliases=()):
        self.comps = list(comps)            # [(name, type, role, nullable)]
        self.rows = rows
        self.aliases = set(aliases)         # aliases usable as prefix
        self.origin = {}                    # unprefixed unique component name -> set of aliases it comes from
        self.prov = None                    # set by join(): provenance string per datapoint

    def names(self):
        return [c[0] for c in self.comps]

    def role(self, n):
        for c in self.comps:
            if c[0] == n:
                return c[2]
        raise KeyError(n)

    def resolve(self, ref):
        """name used in a clause -> name of the component of the virtual dataset"""
        names = self.names()
        if ref in names:
            return ref
        if "#" in ref:
            al, n = ref.split("#", 1)
            # alias#name is also a legal way to write a component that needed no prefix
            if al in self.aliases and n in names and al in self.origin.get(n, ()):
                return n
            raise RefError("unknown component %s" % ref)
        cands = [n for n in names if "#" in n and n.split("#", 1)[1] == ref]
        if cands:
            raise RefError("ambiguous component %s (%s)" % (ref, ", ".join(cands)))
        raise RefError("unknown component %s" % ref)


def _guess_type(e, vds):
    if e[0] == "k":
        v = e[1]
        return "Boolean" if isinstance(v, bool) else "Integer" if isinstance(v, int) else "Number" if isinstance(v, float) else "String"
    if e[0] == "c":
        n = vds.resolve(e[1])
        return [c[1] for c in vds.comps if c[0] == n][0]
    if e[0] == "bin":
        if e[1] in ("and", "or", "xor", "=", "<>", "<", ">", "<=", ">="):
            return "Boolean"
        if e[1] == "||":
            return "String"
        if e[1] == "/":
            return "Number"
        a, b = _guess_type(e[2], vds), _guess_type(e[3], vds)
        return "Integer" if a == b == "Integer" else "Number"
    if e[0] == "un":
        return "Boolean" if e[1] == "not" else _guess_type(e[2], vds)
    if e[0] == "if":
        return _guess_type(e[2], vds)
    if e[0] == "fn":
        return "Boolean" if e[1] == "isnull" else _guess_type(e[2][0], vds)
    if e[0] == "agg":
        t = _guess_type(e[2], vds)
        return "Number" if e[1] == "avg" else t
    return "Number"


def apply_clause(vds, c):
    t = c[0]
    res = vds.resolve
    if t == "filter":
        for r in refs_of(c[1]):
            res(r)
        out = VDS(vds.comps, [r for r in vds.rows if ev(c[1], r, res) is True], vds.aliases)
        out.origin = vds.origin
        return out
    if t == "calc":
        comps = list(vds.comps)
        targets = []
        for role, name, x in c[1]:
            for r in refs_of(x):
                res(r)
            role = role or ME
            if name in vds.names():
                if vds.role(name) == ID:
                    raise RefError("calc cannot overwrite identifier %s" % name)
                comps = [(n, _guess_type(x, vds), role, True) if n == name else (n, ty, ro, nl) for n, ty, ro, nl in comps]
            else:
                comps.append((name, _guess_type(x, vds), role, role != ID))
            targets.append((name, x))
        if len({n for n, _ in targets}) != len(targets):
            raise RefError("calc defines a component twice")
        rows = []
        for r in vds.rows:
            n = dict(r)
            for name, x in targets:       # all expressions see the *input* datapoint
                n[name] = ev(x, r, res)
            rows.append(n)
        for (role, name, _x) in c[1]:
            if role == ID and any(r[name] is None for r in rows):
                raise RefError("null in calculated identifier %s" % name, "data")
        out = VDS(comps, rows, vds.aliases)
        out.origin = {k: v for k, v in vds.origin.items() if k not in {n for n, _ in targets}}
        return out
    if t == "aggr":
        ids = [n for n in vds.names() if vds.role(n) == ID]
        if c[2] == "by":
            group = [res(n) for n in c[3]]
        elif c[2] == "except":
            ex = [res(n) for n in c[3]]
            group = [n for n in ids if n not in ex]
        else:
            group = []
        for g in group:
            if vds.role(g) != ID:
                raise RefError("grouping by non-identifier %s" % g)
        for _role, _name, x in c[1]:
            for r in refs_of(x):
                res(r)
        buckets, order = {}, []
        for r in vds.rows:
            k = tuple(r[g] for g in group)
            if k not in buckets:
                buckets[k] = []
                order.append(k)
            buckets[k].append(r)
        comps = [cc for cc in vds.comps if cc[0] in group]
        comps += [(name, _guess_type(x, vds), role or ME, True) for role, name, x in c[1]]
        rows = []
        for k in order:
            n = dict(zip(group, k))
            for _role, name, x in c[1]:
                n[name] = aggregate(x[1], [ev(x[2], r, res) for r in buckets[k]])
            rows.append(n)
        return VDS(comps, rows, vds.aliases)
    if t in ("keep", "drop"):
        sel = [res(r) for r in c[1]]
        for n in sel:
            if vds.role(n) == ID:
                raise RefError("%s on identifier %s" % (t, n))
        if t == "keep":
            comps = [cc for cc in vds.comps if cc[2] == ID or cc[0] in sel]
        else:
            comps = [cc for cc in vds.comps if cc[0] not in sel]
        keepn = [cc[0] for cc in comps]
        out = VDS(comps, [{n: r[n] for n in keepn} for r in vds.rows], vds.aliases)
        out.origin = vds.origin
        return out
    if t == "rename":
        mp = {}
        for a, b in c[1]:
            a = res(a)
            if a in mp:
                raise RefError("component renamed twice")
            mp[a] = b
        new = [mp.get(n, n) for n in vds.names()]
        if len(set(new)) != len(new):
            raise RefError("rename produces a duplicated component name")
        comps = [(mp.get(n, n), ty, ro, nl) for n, ty, ro, nl in vds.comps]
        out = VDS(comps, [{mp.get(n, n): v for n, v in r.items()} for r in vds.rows], vds.aliases)
        out.origin = {k: v for k, v in vds.origin.items() if k not in mp}
        return out
    if t == "apply":
        op, la, ra = c[1], c[2], c[3]
        if la not in vds.aliases or ra not in vds.aliases:
            raise RefError("apply on unknown alias")
        lm = {n.split("#", 1)[1]: n for n in vds.names() if n.startswith(la + "#") and vds.role(n) == ME}
        rm = {n.split("#", 1)[1]: n for n in vds.names() if n.startswith(ra + "#") and vds.role(n) == ME}
        common = [m for m in lm if m in rm]
        if not common:
            raise RefError("apply: no common measures")
        ids = [cc for cc in vds.comps if cc[2] == ID]
        comps = ids + [(m, [cc[1] for cc in vds.comps if cc[0] == lm[m]][0], ME, True) for m in common]
        rows = []
        for r in vds.rows:
            n = {cc[0]: r[cc[0]] for cc in ids}
            for m in common:
                n[m] = ev(("bin", op, ("c", lm[m]), ("c", rm[m])), r, lambda x: x)
            rows.append(n)
        return VDS(comps, rows, vds.aliases)
    raise NotModelled(t)


def finalize(vds, name):
    """remove alias prefixes, check the result is a function of its identifiers"""
    new = [n.split("#", 1)[1] if "#" in n else n for n in vds.names()]
    if len(set(new)) != len(new):
        raise RefError("ambiguous component names after the join body: %s" % sorted(n for n in new if new.count(n) > 1))
    comps = [(nn, ty, ro, nl) for nn, (_n, ty, ro, nl) in zip(new, vds.comps)]
    mp = dict(zip(vds.names(), new))
    rows = [{mp[k]: v for k, v in r.items()} for r in vds.rows]
    ids = [c[0] for c in comps if c[2] == ID]
    seen = set()
    for r in rows:
        k = tuple(r[i] for i in ids)
        if k in seen:
            raise RefError("duplicated identifier values %r in the result" % (k,), "data")
        seen.add(k)
    return DS(name, comps, rows)


# ---------------------------------------------------------------------------------------------------
# the join itself
# ---------------------------------------------------------------------------------------------------

def reference_index(kind, dss, using):
    """index of the reference dataset: the left-most for left_join (and cross_join), for inner_join / full_join the
    one whose identifiers are a superset of every other operand's"""
    if kind in ("left_join", "cross_join"):
        return 0
    best = 0
    for i, d in enumerate(dss):
        if len(d.ids()) > len(dss[best].ids()):
            best = i
    if using and any(not set(d.ids()) <= set(using) for j, d in enumerate(dss) if j != best):
        # case B: the reference is the operand that need not be covered by the using components (it may come later)
        for i in range(len(dss)):
            if all(set(d.ids()) <= set(using) for j, d in enumerate(dss) if j != i):
                return i
    return best


def check_structure(kind, dss, using):
    """the manual's constraints on identifiers (Case A / Case B) as far as the engine implements them; anything else
    is a RefError so that the generator of the check cannot silently leave the legal subset"""
    if len(dss) == 1:
        return
    ref = dss[reference_index(kind, dss, using)]
    if kind in ("full_join", "cross_join") and using:
        raise RefError("using is not allowed for %s" % kind)
    if kind == "cross_join":
        return
    if not using:
        if kind == "full_join":
            for d in dss:
                if set(d.ids()) != set(ref.ids()):
                    raise RefError("full_join needs the same identifiers in all operands")
        else:
            # inner_join: one operand's identifiers contain everybody else's (manual, case A1).  left_join: the manual
            # (case A2) asks for equal identifier sets; the engine also admits operands whose identifiers are a subset
            # of the left-most operand's - the relational meaning is the same stepwise join on the common identifiers
            for d in dss:
                if not set(d.ids()) <= set(ref.ids()):
                    raise RefError("identifiers of %s are not a subset of the reference dataset's" % d.name)
        return
    for d in dss:
        for u in using:
            if u not in d.names():
                raise RefError("using component %s is missing in %s" % (u, d.name))
        if d is not ref and not set(d.ids()) <= set(using):
            raise RefError("using does not cover the identifiers of %s" % d.name)
        if d is not ref and not set(using) <= set(d.ids()) and not set(using) <= set(ref.names()):
            raise RefError("sub-case B2 violated")


def join(kind, named, using=None):
    """named = [(alias, DS)].  Returns the virtual dataset (VDS)."""
    aliases = [a for a, _ in named]
    if len(set(aliases)) != len(aliases):
        raise RefError("duplicated alias")
    dss = [d for _, d in named]
    for d in dss:
        if not d.ids():
            raise RefError("operand without identifiers")
    check_structure(kind, dss, using)
    cross = kind == "cross_join"
    refi = reference_index(kind, dss, using)
    ref = dss[refi]
    # ---- names that appear once in the virtual dataset
    once = set()
    if not cross:
        for d in dss:
            once.update(d.ids())
        if using:
            once.update(using)
    count = {}
    for d in dss:
        for n in d.names():
            if n not in once:
                count[n] = count.get(n, 0) + 1
    vmap = []   # per operand: component name -> virtual name
    for a, d in named:
        vmap.append({n: (n if n in once or count[n] == 1 else "%s#%s" % (a, n)) for n in d.names()})
    # ---- structure
    comps, seen = [], set()

    def role_of_once(n):
        if using and n in using:
            # B1: identifier everywhere -> identifier; B2: the role it has in the reference dataset
            return [c for c in ref.comps if c[0] == n][0][2] if n in ref.names() else ID
        return ID

    for i, (a, d) in enumerate(named):
        for n, ty, ro, nl in d.comps:
            vn = vmap[i][n]
            if vn in seen:
                continue
            seen.add(vn)
            if n in once:
                ro2 = role_of_once(n)
                # a using key that is an identifier only in the non-reference operands is taken from the reference
                if using and n in using and n in ref.names():
                    ty = [c for c in ref.comps if c[0] == n][0][1]
                comps.append((vn, ty, ro2, ro2 != ID))
            else:
                comps.append((vn, ty, ro, nl or kind in ("left_join", "full_join")))
    vds = VDS(comps, [], aliases)
    for i, (a, d) in enumerate(named):
        for n in d.names():
            if vmap[i][n] == n and n not in once:
                vds.origin.setdefault(n, set()).add(a)
            elif n in once:
                vds.origin.setdefault(n, set()).add(a)
    # ---- datapoints: stepwise, left to right, nested loops.  Every virtual datapoint carries its provenance (one
    # character per operand: 1 = a datapoint of that operand contributed, 0 = null-filled) in vds.prov
    acc = [{vmap[0][n]: r.get(n) for n in named[0][1].names()} for r in named[0][1].rows]
    for r in acc:
        r[_PROV] = "1"
    acc_names = set(vmap[0].values())
    acc_ids = set(named[0][1].ids())
    for i in range(1, len(named)):
        d = named[i][1]
        m = vmap[i]
        if cross:
            keys = []
        elif using:
            keys = list(using)
        else:
            keys = sorted(acc_ids & set(d.ids()))
        right = [{m[n]: r.get(n) for n in d.names()} for r in d.rows]
        right_only = [vn for vn in m.values() if vn not in acc_names]
        left_only = [vn for vn in acc_names if vn not in set(m.values())]
        rkeys = [tuple(r[k] for k in keys) for r in right]
        rnull = [any(v is None for v in t) for t in rkeys]
        out = []
        matched_right = [False] * len(right)
        for lrow in acc:
            lkey = tuple(lrow[k] for k in keys)
            hit = False
            if not any(v is None for v in lkey):        # a null key value matches nothing
                for j in range(len(right)):
                    if rkeys[j] == lkey and not rnull[j]:
                        hit = True
                        matched_right[j] = True
                        n = dict(lrow)
                        rrow = right[j]
                        for vn in right_only:
                            n[vn] = rrow[vn]
                        n[_PROV] = lrow[_PROV] + "1"
                        out.append(n)
            if not hit and kind in ("left_join", "full_join"):
                n = dict(lrow)
                for vn in right_only:
                    n[vn] = None
                n[_PROV] = lrow[_PROV] + "0"
                out.append(n)
        if kind == "full_join":
            for j, rrow in enumerate(right):
                if not matched_right[j]:
                    n = {vn: None for vn in left_only}
                    n.update(rrow)
                    n[_PROV] = "0" * i + "1"
                    out.append(n)
        acc = out
        acc_names |= set(m.values())
        acc_ids |= set(d.ids())
    vds.prov = [r.pop(_PROV) for r in acc]
    vds.rows = acc
    return vds


def eval_ds(x, env, name="DS_r"):
    """evaluate a dataset-level expression (Join or Ref) -> DS"""
    if isinstance(x, Ref):
        if x.name not in env:
            raise RefError("unknown dataset %s" % x.name)
        d = env[x.name]
        v = VDS(d.comps, [dict(r) for r in d.rows], [d.name])
        for n in d.names():
            v.origin[n] = {d.name}
        for c in x.post:
            v = apply_clause(v, c)
        return finalize(v, name)
    named = []
    for o in x.operands:
        d = eval_ds(Ref(o.name, o.pre), env, o.name)
        if o.pre and not o.alias:
            raise RefError("alias is mandatory for a sub-expression")
        named.append((o.alias or o.name, d))
    if len(named) == 1:
        d = named[0][1]
        v = VDS(d.comps, [dict(r) for r in d.rows], [named[0][0]])
        for n in d.names():
            v.origin[n] = {named[0][0]}
    else:
        v = join(x.kind, named, x.using)
    for c in x.body:
        v = apply_clause(v, c)
    out = finalize(v, name)
    if x.post:
        v = VDS(out.comps, out.rows, [])
        for c in x.post:
            v = apply_clause(v, c)
        out = finalize(v, name)
    return out


def evaluate(statements, dss):
    """statements: [(result name, Join|Ref)], dss: list of DS -> {result name: DS}"""
    env = {d.name: d for d in dss}
    out = {}
    for name, x in statements:
        r = eval_ds(x, env, name)
        env[name] = r
        out[name] = r
    return out


# ---------------------------------------------------------------------------------------------------
# parser for the calibration corpus (text -> mini-AST); anything outside the subset raises NotModelled
# ---------------------------------------------------------------------------------------------------

_TOKEN = re.compile(r"""\s*(?:
    (?P<str>"[^"]*") |
    (?P<num>\d+\.\d+|\d+) |
    (?P<id>[A-Za-z_][A-Za-z0-9_]*(?:\#[A-Za-z_][A-Za-z0-9_]*)?) |
    (?P<sym>:=|<-|<>|<=|>=|\|\||[()\[\],;=<>+\-*/])
)""", re.X)

_KEYWORDS = {"filter", "calc", "aggr", "keep", "drop", "rename", "apply", "using", "as", "to", "group", "by", "except",
             "having", "identifier", "measure", "attribute", "if", "then", "else", "and", "or", "xor", "not", "true",
             "false", "null", "viral"}


def tokenize(text):
    text = re.sub(r"/\*.*?\*/", " ", text, flags=re.S)
    text = re.sub(r"//[^\n]*", " ", text)
    pos, out = 0, []
    text = text.rstrip()
    while pos < len(text):
        m = _TOKEN.match(text, pos)
        if not m:
            raise NotModelled("cannot tokenize at %r" % text[pos:pos + 20])
        pos = m.end()
        if m.lastgroup == "str":
            out.append(("str", m.group("str")[1:-1]))
        elif m.lastgroup == "num":
            s = m.group("num")
            out.append(("num", float(s) if "." in s else int(s)))
        elif m.lastgroup == "id":
            out.append(("id", m.group("id")))
        else:
            out.append(("sym", m.group("sym")))
    return out


class Parser:
    def __init__(self, text):
        if re.search(r"\bdefine\b", text):
            raise NotModelled("define")
        self.t = tokenize(text)
        self.i = 0

    def peek(self, k=0):
        return self.t[self.i + k] if self.i + k < len(self.t) else ("eof", None)

    def at(self, *vals):
        p = self.peek()
        return p[0] in ("id", "sym") and p[1] in vals

    def eat(self, val=None, kind=None):
        p = self.peek()
        if (val is not None and p[1] != val) or (kind is not None and p[0] != kind) or p[0] == "eof":
            raise NotModelled("expected %r/%r, found %r" % (val, kind, p))
        self.i += 1
        return p[1]

    def ident(self):
        p = self.peek()
        if p[0] != "id" or p[1] in _KEYWORDS:
            raise NotModelled("identifier expected, found %r" % (p,))
        self.i += 1
        return p[1]

    def script(self):
        out = []
        while self.peek()[0] != "eof":
            name = self.ident()
            if not self.at(":=", "<-"):
                raise NotModelled("assignment expected")
            self.i += 1
            out.append((name, self.dataset()))
            if self.at(";"):
                self.i += 1
        return out

    def dataset(self):
        p = self.peek()
        if p[0] == "id" and p[1] in KINDS:
            x = self.join()
        else:
            x = Ref(self.ident())
            if self.at("("):
                raise NotModelled("function call %s" % x.name)
        post = []
        while self.at("["):
            self.i += 1
            post.append(self.clause())
            self.eat("]")
        x.post = post
        return x

    def join(self):
        kind = self.eat(kind="id")
        self.eat("(")
        operands = []
        while True:
            d = self.dataset()
            if not isinstance(d, Ref):
                raise NotModelled("nested join")
            alias = None
            if self.at("as"):
                self.i += 1
                alias = self.ident()
            operands.append(Operand(d.name, alias, d.post))
            if self.at(","):
                self.i += 1
                continue
            break
        using = None
        if self.at("using"):
            self.i += 1
            using = [self.using_item()]
            while self.at(","):
                self.i += 1
                using.append(self.using_item())
        body = []
        if self.at("filter"):
            body.append(self.clause())
        if self.at("calc", "apply", "aggr"):
            body.append(self.clause())
        if self.at("keep", "drop"):
            body.append(self.clause())
        if self.at("rename"):
            body.append(self.clause())
        self.eat(")")
        return Join(kind, operands, using, body)

    def using_item(self):
        n = self.ident()
        if self.at("("):
            raise NotModelled("function in using")
        return n

    def role(self):
        if self.at("identifier"):
            self.i += 1
            return ID
        if self.at("measure"):
            self.i += 1
            return ME
        if self.at("attribute"):
            self.i += 1
            return AT
        if self.at("viral"):
            raise NotModelled("viral attribute")
        return None

    def clause(self):
        kw = self.eat(kind="id")
        if kw == "filter":
            return ("filter", self.expr())
        if kw == "calc":
            items = []
            while True:
                role = self.role()
                name = self.ident()
                self.eat(":=")
                items.append((role, name, self.expr()))
                if self.at(","):
                    self.i += 1
                    continue
                break
            return ("calc", items)
        if kw == "aggr":
            items = []
            while True:
                role = self.role()
                name = self.ident()
                self.eat(":=")
                x = self.expr()
                if x[0] != "agg":
                    raise NotModelled("aggr without aggregate function")
                items.append((role, name, x))
                if self.at(","):
                    self.i += 1
                    continue
                break
            mode, names = None, []
            if self.at("group"):
                self.i += 1
                mode = self.eat(kind="id")
                if mode not in ("by", "except"):
                    raise NotModelled("group " + mode)
                names = [self.ident()]
                while self.at(","):
                    self.i += 1
                    names.append(self.ident())
            if self.at("having"):
                raise NotModelled("having")
            return ("aggr", items, mode, names)
        if kw in ("keep", "drop"):
            names = [self.ident()]
            while self.at(","):
                self.i += 1
                names.append(self.ident())
            return (kw, names)
        if kw == "rename":
            items = []
            while True:
                a = self.ident()
                self.eat("to")
                items.append((a, self.ident()))
                if self.at(","):
                    self.i += 1
                    continue
                break
            return ("rename", items)
        if kw == "apply":
            a = self.ident()
            op = self.eat(kind="sym")
            b = self.ident()
            if op not in ("+", "-", "*", "/", "||"):
                raise NotModelled("apply " + op)
            return ("apply", op, a, b)
        raise NotModelled("clause " + str(kw))

    # expression precedence (VTL grammar): or/xor < and < comparison < + - || < * / < unary < primary
    def expr(self):
        if self.at("if"):
            self.i += 1
            c = self.expr()
            self.eat("then")
            a = self.expr()
            self.eat("else")
            return ("if", c, a, self.expr())
        return self.p_or()

    def p_or(self):
        a = self.p_and()
        while self.at("or", "xor"):
            op = self.eat()
            a = ("bin", op, a, self.p_and())
        return a

    def p_and(self):
        a = self.p_cmp()
        while self.at("and"):
            self.i += 1
            a = ("bin", "and", a, self.p_cmp())
        return a

    def p_cmp(self):
        a = self.p_add()
        while self.at("=", "<>", "<", ">", "<=", ">="):
            op = self.eat()
            a = ("bin", op, a, self.p_add())
        return a

    def p_add(self):
        a = self.p_mul()
        while self.at("+", "-", "||"):
            op = self.eat()
            a = ("bin", op, a, self.p_mul())
        return a

    def p_mul(self):
        a = self.p_un()
        while self.at("*", "/"):
            op = self.eat()
            a = ("bin", op, a, self.p_un())
        return a

    def p_un(self):
        if self.at("not", "-", "+"):
            op = self.eat()
            return ("un", op, self.p_un())
        return self.p_prim()

    def p_prim(self):
        p = self.peek()
        if p[0] == "str" or p[0] == "num":
            self.i += 1
            return ("k", p[1])
        if self.at("("):
            self.i += 1
            x = self.expr()
            self.eat(")")
            return x
        if self.at("if"):
            return self.expr()
        if self.at("true", "false", "null"):
            self.i += 1
            return ("k", {"true": True, "false": False, "null": None}[p[1]])
        if p[0] == "id":
            name = p[1]
            if self.peek(1) == ("sym", "("):
                self.i += 2
                if name == "cast":
                    x = self.expr()
                    self.eat(",")
                    self.eat(kind="id")
                    self.eat(")")
                    if x != ("k", None):
                        raise NotModelled("cast of a non-null value")
                    return x
                args = []
                if not self.at(")"):
                    args.append(self.expr())
                    while self.at(","):
                        self.i += 1
                        args.append(self.expr())
                self.eat(")")
                if name in ("sum", "max", "min", "avg"):
                    if len(args) != 1:
                        raise NotModelled(name)
                    return ("agg", name, args[0])
                if name in ("nvl", "isnull", "abs"):
                    return ("fn", name, args)
                raise NotModelled("function " + name)
            if name in _KEYWORDS:
                raise NotModelled("unexpected keyword " + name)
            self.i += 1
            return ("c", name)
        raise NotModelled("unexpected token %r" % (p,))


def parse(text):
    return Parser(text).script()

import org.antlr.v4.runtime.*;
import org.antlr.v4.runtime.atn.*;
import org.antlr.v4.runtime.dfa.DFA;
import org.antlr.v4.runtime.tree.*;
import java.io.*;
import java.nio.charset.StandardCharsets;
import java.nio.file.*;
import java.util.*;
import java.util.regex.*;

/**
 * Parse host of the front-end stand-in: interprets the repository's own serialized ATNs
 * (Vtl.cpp / VtlTokens.cpp) with the stock ANTLR Java runtime.
 *
 * Protocol (stdin/stdout, big-endian): request = int cmd, int len, len bytes (UTF-8);
 * reply = int len, len bytes (UTF-8 JSON).
 *   cmd 0/1/2  parse text in SLL / LL / LL_EXACT_AMBIG_DETECTION, reply flat pre-order tree
 *   cmd 3      parse text in SLL and in LL (with a diagnostic listener) and compare
 *   cmd 4      enumerate token sequences (C23/C31 in-JVM spaces); payload is JSON-ish spec
 *   cmd 5      ATN facts (decisions, transitions) for coverage accounting
 */
public class VtlParseServer {
    static List<List<String>> stringVectors(String src) {
        List<List<String>> out = new ArrayList<>();
        Matcher m = Pattern.compile("std::vector<std::string>\\{(.*?)\\n\\s*\\}", Pattern.DOTALL).matcher(src);
        while (m.find()) {
            List<String> v = new ArrayList<>();
            Matcher s = Pattern.compile("\"((?:[^\"\\\\]|\\\\.)*)\"").matcher(m.group(1));
            while (s.find()) v.add(s.group(1).replace("\\\\", "\\").replace("\\\"", "\""));
            out.add(v);
        }
        return out;
    }
    static int[] atn(String src) {
        Matcher m = Pattern.compile("serializedATNSegment\\[\\] = \\{(.*?)\\};", Pattern.DOTALL).matcher(src);
        if (!m.find()) throw new RuntimeException("no serialized ATN");
        String[] parts = m.group(1).trim().split("\\s*,\\s*");
        int[] a = new int[parts.length];
        for (int i = 0; i < parts.length; i++) a[i] = Integer.parseInt(parts[i].trim());
        return a;
    }

    static class FirstError extends BaseErrorListener {
        boolean has = false; int line, col, ulen = 1; String msg = "", text = "";
        @Override public void syntaxError(Recognizer<?, ?> r, Object off, int line, int col, String msg, RecognitionException e) {
            if (has) return;
            has = true; this.line = line; this.col = col; this.msg = msg;
            if (off instanceof Token) {
                Token t = (Token) off;
                text = t.getText() == null ? "" : t.getText();
                int a = t.getStartIndex(), b = t.getStopIndex();
                if (b != -1 && b >= a) ulen = b - a + 1;
            }
        }
    }

    /** counts the decisions at which SLL had a conflict (LL mode only) */
    static class Diag extends BaseErrorListener {
        int fullCtx = 0, ctxSens = 0, ambig = 0;
        final TreeMap<Integer,Integer> byDecision = new TreeMap<>();
        @Override public void reportAttemptingFullContext(Parser r, DFA dfa, int a, int b, BitSet c, ATNConfigSet s) {
            fullCtx++; byDecision.merge(dfa.decision, 1, Integer::sum);
        }
        @Override public void reportContextSensitivity(Parser r, DFA dfa, int a, int b, int p, ATNConfigSet s) { ctxSens++; }
        @Override public void reportAmbiguity(Parser r, DFA dfa, int a, int b, boolean exact, BitSet alts, ATNConfigSet s) { ambig++; }
    }

    static class Interp extends ParserInterpreter {
        final IdentityHashMap<ParserRuleContext, int[]> alts = new IdentityHashMap<>();
        final Map<ATNState, Boolean> precLoopBlock = new HashMap<>();
        BitSet decisionsSeen = null;
        Interp(String g, Vocabulary v, Collection<String> rules, ATN atn, TokenStream in) {
            super(g, v, rules, atn, in);
            for (ATNState s : atn.states) {
                if (s instanceof StarLoopEntryState && ((StarLoopEntryState) s).isPrecedenceDecision)
                    precLoopBlock.put(s.transition(0).target, Boolean.TRUE);
            }
        }
        @Override protected int visitDecisionState(DecisionState p) {
            int alt = super.visitDecisionState(p);
            if (decisionsSeen != null && p.decision >= 0 && alt >= 0) decisionsSeen.set(p.decision * 64 + Math.min(alt, 63));
            ATNState first = atn.ruleToStartState[p.ruleIndex].transition(0).target;
            int[] rec = alts.computeIfAbsent(_ctx, k -> new int[]{0, 0});
            if (p == first && rec[0] == 0 && rec[1] == 0 && !(p instanceof StarLoopEntryState)) rec[0] = alt;
            else if (p instanceof StarBlockStartState && precLoopBlock.containsKey(p)) {
                if (rec[1] == 0) rec[1] = alt;
            }
            return alt;
        }
    }

    static void esc(StringBuilder sb, String s) {
        sb.append('"');
        for (int i = 0; i < s.length(); i++) {
            char c = s.charAt(i);
            switch (c) {
                case '"': sb.append("\\\""); break;
                case '\\': sb.append("\\\\"); break;
                case '\n': sb.append("\\n"); break;
                case '\r': sb.append("\\r"); break;
                case '\t': sb.append("\\t"); break;
                default:
                    if (c < 0x20 || (c >= 0xD800 && c <= 0xDFFF) || c == 0x2028 || c == 0x2029 || c == 0x7f)
                        sb.append(String.format("\\u%04x", (int) c));
                    else sb.append(c);
            }
        }
        sb.append('"');
    }

    /** flat pre-order list; every rule node carries its child count */
    static int dump(StringBuilder sb, ParseTree root, Interp p) {
        Deque<ParseTree> stack = new ArrayDeque<>();
        stack.push(root);
        boolean first = true; int n = 0;
        sb.append('[');
        while (!stack.isEmpty()) {
            ParseTree t = stack.pop();
            if (!first) sb.append(','); first = false; n++;
            if (t instanceof TerminalNode) {
                Token k = ((TerminalNode) t).getSymbol();
                sb.append("[0,").append(k.getType()).append(',');
                esc(sb, k.getText() == null ? "" : k.getText());
                sb.append(',').append(k.getLine()).append(',').append(k.getCharPositionInLine())
                  .append(',').append(t instanceof ErrorNode ? 1 : 0).append(']');
            } else {
                ParserRuleContext c = (ParserRuleContext) t;
                int[] a = p.alts.getOrDefault(c, new int[]{0, 0});
                int cc = c.getChildCount();
                Token s = c.getStart(), e = c.getStop();
                sb.append("[1,").append(c.getRuleIndex()).append(',').append(a[0]).append(',').append(a[1]).append(',');
                sb.append(s == null ? 0 : s.getLine()).append(',').append(s == null ? 0 : s.getCharPositionInLine()).append(',');
                sb.append(e == null ? 0 : e.getLine()).append(',').append(e == null ? 0 : e.getCharPositionInLine()).append(',');
                esc(sb, e == null || e.getText() == null ? "" : e.getText());
                sb.append(',').append(cc).append(']');
                for (int i = cc - 1; i >= 0; i--) stack.push(c.getChild(i));
            }
        }
        sb.append(']');
        return n;
    }

    /** canonical string of a tree (rule, alts, token type/text/position), iterative */
    static String canon(ParseTree root, Interp p) {
        StringBuilder sb = new StringBuilder();
        Deque<ParseTree> stack = new ArrayDeque<>();
        stack.push(root);
        while (!stack.isEmpty()) {
            ParseTree t = stack.pop();
            if (t instanceof TerminalNode) {
                Token k = ((TerminalNode) t).getSymbol();
                sb.append('t').append(k.getType()).append(':').append(k.getText()).append('@').append(k.getLine()).append(':')
                  .append(k.getCharPositionInLine()).append(t instanceof ErrorNode ? "!" : "").append(';');
            } else {
                ParserRuleContext c = (ParserRuleContext) t;
                int[] a = p.alts.getOrDefault(c, new int[]{0, 0});
                sb.append('r').append(c.getRuleIndex()).append('.').append(a[0]).append('.').append(a[1]).append('#').append(c.getChildCount()).append(';');
                for (int i = c.getChildCount() - 1; i >= 0; i--) stack.push(c.getChild(i));
            }
        }
        return sb.toString();
    }

    static ATN latn, patn;
    static List<List<String>> lv, pv;
    static Vocabulary voc;
    static int ML, SL;

    static class Parsed { ParserRuleContext tree; Interp p; FirstError fe; CommonTokenStream ts; Diag diag; }

    static Parsed parse(String text, int mode, boolean diag) {
        Parsed r = new Parsed();
        LexerInterpreter lexer = new LexerInterpreter("VtlTokens.g4", voc, lv.get(0), lv.get(1), lv.get(2), latn, CharStreams.fromString(text));
        r.ts = new CommonTokenStream(lexer);
        r.p = new Interp("Vtl.g4", voc, pv.get(0), patn, r.ts);
        r.p.getInterpreter().setPredictionMode(mode == 1 ? PredictionMode.LL : (mode == 2 ? PredictionMode.LL_EXACT_AMBIG_DETECTION : PredictionMode.SLL));
        r.fe = new FirstError();
        lexer.removeErrorListeners(); lexer.addErrorListener(r.fe);
        r.p.removeErrorListeners(); r.p.addErrorListener(r.fe);
        if (diag) { r.diag = new Diag(); r.p.addErrorListener(r.diag); }
        r.tree = r.p.parse(0);
        r.ts.fill();
        return r;
    }

    static void errJson(StringBuilder sb, FirstError fe) {
        if (fe.has) {
            sb.append('[').append(fe.line).append(',').append(fe.col).append(','); esc(sb, fe.msg);
            sb.append(','); esc(sb, fe.text); sb.append(',').append(fe.ulen).append(']');
        } else sb.append("null");
    }

    static String doParse(String text, int mode) {
        StringBuilder sb = new StringBuilder();
        Parsed r = parse(text, mode, false);
        sb.append("{\"nodes\":");
        dump(sb, r.tree, r.p);
        sb.append(",\"comments\":[");
        boolean f = true;
        for (Token k : r.ts.getTokens()) {
            if (k.getType() == ML || k.getType() == SL) {
                if (!f) sb.append(','); f = false;
                sb.append('[').append(k.getType()).append(','); esc(sb, k.getText());
                sb.append(',').append(k.getLine()).append(',').append(k.getCharPositionInLine()).append(']');
            }
        }
        sb.append("],\"error\":");
        errJson(sb, r.fe);
        sb.append('}');
        return sb.toString();
    }

    static String doCompare(String text) {
        StringBuilder sb = new StringBuilder();
        Parsed a = parse(text, 0, false);
        Parsed b = parse(text, 1, true);
        String ca = canon(a.tree, a.p), cb = canon(b.tree, b.p);
        boolean sameErr = a.fe.has == b.fe.has && (!a.fe.has || (a.fe.line == b.fe.line && a.fe.col == b.fe.col && a.fe.msg.equals(b.fe.msg)));
        sb.append("{\"same_tree\":").append(ca.equals(cb)).append(",\"same_error\":").append(sameErr);
        sb.append(",\"sll_error\":"); errJson(sb, a.fe);
        sb.append(",\"ll_error\":"); errJson(sb, b.fe);
        sb.append(",\"full_ctx\":").append(b.diag.fullCtx).append(",\"ctx_sens\":").append(b.diag.ctxSens).append(",\"ambig\":").append(b.diag.ambig);
        sb.append(",\"by_decision\":{");
        boolean f = true;
        for (Map.Entry<Integer,Integer> e : b.diag.byDecision.entrySet()) {
            if (!f) sb.append(','); f = false;
            sb.append('"').append(e.getKey()).append("\":").append(e.getValue());
        }
        sb.append("},\"nodes\":").append(ca.chars().filter(ch -> ch == ';').count()).append('}');
        return sb.toString();
    }

    // ---- cmd 4: in-JVM enumeration of all token sequences of length <= k over an alphabet -----------
    // payload: first line = "k mode" (mode: cmp|sll), following lines = one token text per line.
    static String doEnumerate(String payload) {
        String[] lines = payload.split("\n", -1);
        String[] head = lines[0].trim().split(" ");
        int k = Integer.parseInt(head[0]);
        boolean cmp = head[1].equals("cmp");
        int firstFixed = head.length > 2 ? Integer.parseInt(head[2]) : -1;   // shard: fix the first token
        List<String> alpha = new ArrayList<>();
        for (int i = 1; i < lines.length; i++) if (!lines[i].isEmpty()) alpha.add(lines[i]);
        long total = 0, accepted = 0, rejected = 0, crashes = 0, diffs = 0, badpos = 0, fullctx = 0;
        List<String> acceptedTexts = new ArrayList<>();
        List<String> problems = new ArrayList<>();
        Map<String, Long> errKinds = new TreeMap<>();
        int n = alpha.size();
        int[] idx = new int[k];
        for (int len = (firstFixed >= 0 ? 1 : 0); len <= k; len++) {
            Arrays.fill(idx, 0);
            if (firstFixed >= 0) idx[0] = firstFixed;
            boolean done = false;
            while (!done) {
                StringBuilder t = new StringBuilder();
                for (int i = 0; i < len; i++) { if (i > 0) t.append(' '); t.append(alpha.get(idx[i])); }
                String text = t.toString() + "\n";
                total++;
                try {
                    Parsed a = parse(text, 0, false);
                    if (a.fe.has) {
                        rejected++;
                        String kind = a.fe.msg.replaceAll("'[^']*'", "'_'").replaceAll("\\{[^}]*\\}", "{_}");
                        if (kind.length() > 60) kind = kind.substring(0, 60);
                        errKinds.merge(kind, 1L, Long::sum);
                        int nl = 1; for (int i = 0; i < text.length(); i++) if (text.charAt(i) == '\n') nl++;
                        if (a.fe.line < 1 || a.fe.line > nl || a.fe.col < 0) { badpos++; if (problems.size() < 20) problems.add("badpos:" + text); }
                    } else { accepted++; if (acceptedTexts.size() < 200000) acceptedTexts.add(t.toString()); }
                    if (cmp) {
                        Parsed b = parse(text, 1, true);
                        fullctx += b.diag.fullCtx;
                        boolean same = canon(a.tree, a.p).equals(canon(b.tree, b.p)) && a.fe.has == b.fe.has
                            && (!a.fe.has || (a.fe.line == b.fe.line && a.fe.col == b.fe.col));
                        if (!same) { diffs++; if (problems.size() < 20) problems.add("diff:" + text); }
                    }
                } catch (Throwable e) {
                    crashes++; if (problems.size() < 20) problems.add("crash:" + e + ":" + text);
                }
                int pos = len - 1;
                int low = firstFixed >= 0 ? 1 : 0;
                while (pos >= low) { idx[pos]++; if (idx[pos] < n) break; idx[pos] = 0; pos--; }
                if (pos < low) done = true;
            }
        }
        StringBuilder sb = new StringBuilder();
        sb.append("{\"total\":").append(total).append(",\"accepted\":").append(accepted).append(",\"rejected\":").append(rejected)
          .append(",\"crashes\":").append(crashes).append(",\"diffs\":").append(diffs).append(",\"badpos\":").append(badpos)
          .append(",\"full_ctx\":").append(fullctx).append(",\"error_kinds\":").append(errKinds.size()).append(",\"problems\":[");
        for (int i = 0; i < problems.size(); i++) { if (i > 0) sb.append(','); esc(sb, problems.get(i)); }
        sb.append("],\"accepted_texts\":[");
        for (int i = 0; i < acceptedTexts.size(); i++) { if (i > 0) sb.append(','); esc(sb, acceptedTexts.get(i)); }
        sb.append("]}");
        return sb.toString();
    }


    // ---- cmd 6: one shortest sentence through every ATN transition (set members expanded) -----------
    static String tokenText(int t) {
        String lit = voc.getLiteralName(t);
        if (lit != null && lit.length() >= 2) return lit.substring(1, lit.length() - 1).replace("\\'", "'");
        String sym = voc.getSymbolicName(t);
        if (sym == null) return null;
        switch (sym) {
            case "IDENTIFIER": return "DS_1";
            case "INTEGER_CONSTANT": return "1";
            case "NUMBER_CONSTANT": return "1.5";
            case "STRING_CONSTANT": return "\"a\"";
            case "BOOLEAN_CONSTANT": return "true";
            case "EOL": return ";";
            default: return null;   // tokens without a text we can spell (comments, WS) are never parser input
        }
    }

    static List<int[]> labelChoices(Transition t) {
        List<int[]> out = new ArrayList<>();
        switch (t.getSerializationType()) {
            case Transition.ATOM: case Transition.RANGE: case Transition.SET: {
                for (int tok : t.label().toList()) if (tok == Token.EOF || tokenText(tok) != null) out.add(new int[]{tok});
                break;
            }
            case Transition.NOT_SET: case Transition.WILDCARD: {
                int max = patn.maxTokenType;
                org.antlr.v4.runtime.misc.IntervalSet excl = t.getSerializationType() == Transition.NOT_SET ? t.label() : new org.antlr.v4.runtime.misc.IntervalSet();
                for (int tok = 1; tok <= max; tok++) if (!excl.contains(tok) && tokenText(tok) != null) { out.add(new int[]{tok}); if (out.size() >= 3) break; }
                break;
            }
            default: out.add(new int[0]);   // epsilon-like (epsilon, predicate, action, precedence); RULE handled by caller
        }
        return out;
    }

    static int[] cat(int[]... parts) {
        int n = 0; for (int[] p : parts) n += p.length;
        int[] r = new int[n]; int k = 0;
        for (int[] p : parts) { System.arraycopy(p, 0, r, k, p.length); k += p.length; }
        return r;
    }

    static String doGenerate() {
        int nRules = patn.ruleToStartState.length;
        int nStates = patn.states.size();
        int[][] minSentence = new int[nRules][];
        // fixpoint: minSuffix[s] = shortest token string from s to the stop state of its rule
        int[][] minSuffix = new int[nStates][];
        for (int r = 0; r < nRules; r++) minSuffix[patn.ruleToStopState[r].stateNumber] = new int[0];
        boolean changed = true;
        while (changed) {
            changed = false;
            for (ATNState s : patn.states) {
                if (s == null || s instanceof RuleStopState) continue;
                for (Transition t : s.getTransitions()) {
                    int[] cand = null;
                    if (t instanceof RuleTransition) {
                        RuleTransition rt = (RuleTransition) t;
                        int[] inner = minSentence[rt.ruleIndex];
                        int[] rest = minSuffix[rt.followState.stateNumber];
                        if (inner != null && rest != null) cand = cat(inner, rest);
                    } else {
                        int[] rest = minSuffix[t.target.stateNumber];
                        if (rest != null) {
                            List<int[]> ch = labelChoices(t);
                            if (!ch.isEmpty()) cand = cat(ch.get(0), rest);
                        }
                    }
                    if (cand != null && (minSuffix[s.stateNumber] == null || cand.length < minSuffix[s.stateNumber].length)) {
                        minSuffix[s.stateNumber] = cand; changed = true;
                    }
                }
            }
            for (int r = 0; r < nRules; r++) {
                int[] m = minSuffix[patn.ruleToStartState[r].stateNumber];
                if (m != null && (minSentence[r] == null || m.length < minSentence[r].length)) { minSentence[r] = m; changed = true; }
            }
        }
        // minPrefix[s] = shortest token string from the rule's start state to s
        int[][] minPrefix = new int[nStates][];
        for (int r = 0; r < nRules; r++) minPrefix[patn.ruleToStartState[r].stateNumber] = new int[0];
        changed = true;
        while (changed) {
            changed = false;
            for (ATNState s : patn.states) {
                if (s == null || minPrefix[s.stateNumber] == null) continue;
                for (Transition t : s.getTransitions()) {
                    int[] cand; int tgt;
                    if (t instanceof RuleTransition) {
                        RuleTransition rt = (RuleTransition) t;
                        if (minSentence[rt.ruleIndex] == null) continue;
                        cand = cat(minPrefix[s.stateNumber], minSentence[rt.ruleIndex]); tgt = rt.followState.stateNumber;
                    } else {
                        List<int[]> ch = labelChoices(t);
                        if (ch.isEmpty()) continue;
                        cand = cat(minPrefix[s.stateNumber], ch.get(0)); tgt = t.target.stateNumber;
                    }
                    if (patn.states.get(tgt).ruleIndex != s.ruleIndex) continue;
                    if (minPrefix[tgt] == null || cand.length < minPrefix[tgt].length) { minPrefix[tgt] = cand; changed = true; }
                }
            }
        }
        // context of every rule: (before, after) such that start =>* before <rule> after
        int[][] before = new int[nRules][], after = new int[nRules][];
        before[0] = new int[0]; after[0] = new int[0];
        changed = true;
        while (changed) {
            changed = false;
            for (ATNState s : patn.states) {
                if (s == null || before[s.ruleIndex] == null || minPrefix[s.stateNumber] == null) continue;
                for (Transition t : s.getTransitions()) {
                    if (!(t instanceof RuleTransition)) continue;
                    RuleTransition rt = (RuleTransition) t;
                    int[] suf = minSuffix[rt.followState.stateNumber];
                    if (suf == null) continue;
                    int[] b = cat(before[s.ruleIndex], minPrefix[s.stateNumber]);
                    int[] a = cat(suf, after[s.ruleIndex]);
                    if (before[rt.ruleIndex] == null || b.length + a.length < before[rt.ruleIndex].length + after[rt.ruleIndex].length) {
                        before[rt.ruleIndex] = b; after[rt.ruleIndex] = a; changed = true;
                    }
                }
            }
        }
        LinkedHashSet<String> sentences = new LinkedHashSet<>();
        int transitions = 0, covered = 0;
        for (ATNState s : patn.states) {
            if (s == null) continue;
            for (Transition t : s.getTransitions()) {
                transitions++;
                int r = s.ruleIndex;
                if (before[r] == null || minPrefix[s.stateNumber] == null) continue;
                List<int[]> mids = new ArrayList<>();
                int tgt;
                if (t instanceof RuleTransition) {
                    RuleTransition rt = (RuleTransition) t;
                    if (minSentence[rt.ruleIndex] == null) continue;
                    mids.add(minSentence[rt.ruleIndex]); tgt = rt.followState.stateNumber;
                } else { mids = labelChoices(t); tgt = t.target.stateNumber; }
                if (s instanceof RuleStopState) continue;
                if (minSuffix[tgt] == null || mids.isEmpty()) continue;
                covered++;
                for (int[] mid : mids) {
                    int[] toks = cat(before[r], minPrefix[s.stateNumber], mid, minSuffix[tgt], after[r]);
                    StringBuilder sb = new StringBuilder();
                    for (int tok : toks) { if (tok == Token.EOF) continue; if (sb.length() > 0) sb.append(' '); sb.append(tokenText(tok)); }
                    sentences.add(sb.toString());
                }
            }
        }
        StringBuilder sb = new StringBuilder();
        sb.append("{\"transitions\":").append(transitions).append(",\"transitions_with_sentence\":").append(covered).append(",\"sentences\":[");
        boolean f = true;
        for (String x : sentences) { if (!f) sb.append(','); f = false; esc(sb, x); }
        sb.append("]}");
        return sb.toString();
    }

    // ---- cmd 7: batch SLL-vs-LL comparison; payload = texts separated by \u0000 -----------------------
    static String doBatchCompare(String payload) {
        String[] texts = payload.split("\u0000", -1);
        int n = 0, accepted = 0, diffs = 0, crashes = 0, badpos = 0; long fullCtx = 0, ctxSens = 0, nodes = 0;
        TreeMap<Integer,Integer> byDecision = new TreeMap<>();
        BitSet seen = new BitSet();
        List<String> problems = new ArrayList<>();
        for (String text : texts) {
            n++;
            try {
                Parsed a = parse(text, 0, false);
                a.p.decisionsSeen = null;
                Parsed b = parse(text, 1, true);
                // coverage of (decision, alternative) pairs is measured on a third, instrumented SLL parse
                Parsed c = new Parsed();
                {
                    LexerInterpreter lexer = new LexerInterpreter("VtlTokens.g4", voc, lv.get(0), lv.get(1), lv.get(2), latn, CharStreams.fromString(text));
                    c.ts = new CommonTokenStream(lexer);
                    c.p = new Interp("Vtl.g4", voc, pv.get(0), patn, c.ts);
                    c.p.decisionsSeen = seen;
                    c.p.getInterpreter().setPredictionMode(PredictionMode.SLL);
                    lexer.removeErrorListeners(); c.p.removeErrorListeners();
                    c.p.parse(0);
                }
                String ca = canon(a.tree, a.p), cb = canon(b.tree, b.p);
                boolean sameErr = a.fe.has == b.fe.has && (!a.fe.has || (a.fe.line == b.fe.line && a.fe.col == b.fe.col && a.fe.msg.equals(b.fe.msg)));
                if (!a.fe.has) accepted++;
                else {
                    int nl = 1; for (int i = 0; i < text.length(); i++) if (text.charAt(i) == '\n') nl++;
                    if (a.fe.line < 1 || a.fe.line > nl || a.fe.col < 0) { badpos++; if (problems.size() < 30) problems.add("badpos:" + text); }
                }
                if (!ca.equals(cb) || !sameErr) { diffs++; if (problems.size() < 30) problems.add("diff:" + text); }
                fullCtx += b.diag.fullCtx; ctxSens += b.diag.ctxSens;
                for (Map.Entry<Integer,Integer> e : b.diag.byDecision.entrySet()) byDecision.merge(e.getKey(), e.getValue(), Integer::sum);
                nodes += ca.chars().filter(ch -> ch == ';').count();
            } catch (Throwable e) {
                crashes++; if (problems.size() < 30) problems.add("crash:" + e + ":" + text);
            }
        }
        StringBuilder sb = new StringBuilder();
        sb.append("{\"total\":").append(n).append(",\"accepted\":").append(accepted).append(",\"diffs\":").append(diffs)
          .append(",\"crashes\":").append(crashes).append(",\"badpos\":").append(badpos).append(",\"full_ctx\":").append(fullCtx)
          .append(",\"ctx_sens\":").append(ctxSens).append(",\"nodes\":").append(nodes).append(",\"decision_alts_seen\":").append(seen.cardinality())
          .append(",\"by_decision\":{");
        boolean f = true;
        for (Map.Entry<Integer,Integer> e : byDecision.entrySet()) { if (!f) sb.append(','); f = false; sb.append('"').append(e.getKey()).append("\":").append(e.getValue()); }
        sb.append("},\"seen\":[");
        f = true;
        for (int i = seen.nextSetBit(0); i >= 0; i = seen.nextSetBit(i + 1)) { if (!f) sb.append(','); f = false; sb.append(i); }
        sb.append("],\"problems\":[");
        for (int i = 0; i < problems.size(); i++) { if (i > 0) sb.append(','); esc(sb, problems.get(i)); }
        sb.append("]}");
        return sb.toString();
    }


    // ---- cmd 8: every single-token deletion / duplication / adjacent swap of a text -------------------
    // payload: first line "cmp" or "sll", rest = the text. Mutants keep the original white space and comments.
    static String doMutations(String payload) {
        int nl0 = payload.indexOf('\n');
        boolean cmp = payload.substring(0, nl0).trim().equals("cmp");
        String text = payload.substring(nl0 + 1);
        LexerInterpreter lexer = new LexerInterpreter("VtlTokens.g4", voc, lv.get(0), lv.get(1), lv.get(2), latn, CharStreams.fromString(text));
        lexer.removeErrorListeners();
        CommonTokenStream ts = new CommonTokenStream(lexer);
        ts.fill();
        List<Token> toks = new ArrayList<>();
        for (Token t : ts.getTokens()) if (t.getChannel() == 0 && t.getType() != Token.EOF) toks.add(t);
        int[] cps = text.codePoints().toArray();
        java.util.function.BiFunction<Integer,Integer,String> sub = (a, b) -> new String(cps, a, Math.max(0, b - a));
        List<String> mutants = new ArrayList<>();
        for (int i = 0; i < toks.size(); i++) {
            Token t = toks.get(i);
            int a = t.getStartIndex(), b = t.getStopIndex() + 1;
            mutants.add(sub.apply(0, a) + sub.apply(b, cps.length));                                   // deletion
            mutants.add(sub.apply(0, b) + " " + sub.apply(a, b) + sub.apply(b, cps.length));           // duplication
            if (i + 1 < toks.size()) {
                Token u = toks.get(i + 1);
                int c = u.getStartIndex(), d = u.getStopIndex() + 1;
                mutants.add(sub.apply(0, a) + sub.apply(c, d) + sub.apply(b, c) + sub.apply(a, b) + sub.apply(d, cps.length)); // swap
            }
        }
        long total = 0, accepted = 0, crashes = 0, diffs = 0, badpos = 0, fullctx = 0;
        List<String> problems = new ArrayList<>();
        List<String> acc = new ArrayList<>();
        for (String m : mutants) {
            total++;
            try {
                Parsed a = parse(m, 0, false);
                if (a.fe.has) {
                    int nl = 1; for (int i = 0; i < m.length(); i++) if (m.charAt(i) == '\n') nl++;
                    if (a.fe.line < 1 || a.fe.line > nl || a.fe.col < 0) { badpos++; if (problems.size() < 10) problems.add("badpos:" + m); }
                } else { accepted++; if (acc.size() < 400) acc.add(m); }
                if (cmp) {
                    Parsed b = parse(m, 1, true);
                    fullctx += b.diag.fullCtx;
                    boolean same = canon(a.tree, a.p).equals(canon(b.tree, b.p)) && a.fe.has == b.fe.has
                        && (!a.fe.has || (a.fe.line == b.fe.line && a.fe.col == b.fe.col && a.fe.msg.equals(b.fe.msg)));
                    if (!same) { diffs++; if (problems.size() < 10) problems.add("diff:" + m); }
                }
            } catch (Throwable e) {
                crashes++; if (problems.size() < 10) problems.add("crash:" + e + ":" + m);
            }
        }
        StringBuilder sb = new StringBuilder();
        sb.append("{\"tokens\":").append(toks.size()).append(",\"total\":").append(total).append(",\"accepted\":").append(accepted)
          .append(",\"crashes\":").append(crashes).append(",\"diffs\":").append(diffs).append(",\"badpos\":").append(badpos)
          .append(",\"full_ctx\":").append(fullctx).append(",\"problems\":[");
        for (int i = 0; i < problems.size(); i++) { if (i > 0) sb.append(','); esc(sb, problems.get(i)); }
        sb.append("],\"accepted_texts\":[");
        for (int i = 0; i < acc.size(); i++) { if (i > 0) sb.append(','); esc(sb, acc.get(i)); }
        sb.append("]}");
        return sb.toString();
    }

    // ---- cmd 5: ATN facts ------------------------------------------------------------------------------
    static String doFacts() {
        StringBuilder sb = new StringBuilder();
        int trans = 0;
        for (ATNState s : patn.states) if (s != null) trans += s.getNumberOfTransitions();
        sb.append("{\"states\":").append(patn.states.size()).append(",\"transitions\":").append(trans)
          .append(",\"decisions\":").append(patn.getNumberOfDecisions()).append(",\"decision_alts\":[");
        for (int d = 0; d < patn.getNumberOfDecisions(); d++) {
            if (d > 0) sb.append(',');
            DecisionState ds = patn.getDecisionState(d);
            sb.append('[').append(ds.ruleIndex).append(',').append(ds.getNumberOfTransitions()).append(']');
        }
        sb.append("]}");
        return sb.toString();
    }

    public static void main(String[] args) throws Exception {
        String dir = args[0];
        if (!dir.endsWith("/")) dir += "/";
        String lex = Files.readString(Paths.get(dir + "VtlTokens.cpp"));
        String par = Files.readString(Paths.get(dir + "Vtl.cpp"));
        lv = stringVectors(lex);
        pv = stringVectors(par);
        latn = new ATNDeserializer().deserialize(atn(lex));
        patn = new ATNDeserializer().deserialize(atn(par));
        voc = new VocabularyImpl(pv.get(1).toArray(new String[0]), pv.get(2).toArray(new String[0]));
        ML = pv.get(2).indexOf("ML_COMMENT"); SL = pv.get(2).indexOf("SL_COMMENT");
        DataInputStream in = new DataInputStream(new BufferedInputStream(System.in));
        PrintStream out = new PrintStream(new FileOutputStream(FileDescriptor.out), false, "UTF-8");
        StringBuilder hs = new StringBuilder("{\"rules\":[");
        for (int i = 0; i < pv.get(0).size(); i++) { if (i > 0) hs.append(','); esc(hs, pv.get(0).get(i)); }
        hs.append("],\"literal\":[");
        for (int i = 0; i < pv.get(1).size(); i++) { if (i > 0) hs.append(','); esc(hs, pv.get(1).get(i)); }
        hs.append("],\"symbolic\":[");
        for (int i = 0; i < pv.get(2).size(); i++) { if (i > 0) hs.append(','); esc(hs, pv.get(2).get(i)); }
        hs.append("]}");
        out.println(hs); out.flush();
        DataOutputStream dos = new DataOutputStream(out);
        while (true) {
            int cmd;
            try { cmd = in.readInt(); } catch (EOFException e) { break; }
            int n = in.readInt();
            byte[] buf = new byte[n];
            in.readFully(buf);
            String text = new String(buf, StandardCharsets.UTF_8);
            String reply;
            try {
                if (cmd <= 2) reply = doParse(text, cmd);
                else if (cmd == 3) reply = doCompare(text);
                else if (cmd == 4) reply = doEnumerate(text);
                else if (cmd == 5) reply = doFacts();
                else if (cmd == 6) reply = doGenerate();
                else if (cmd == 7) reply = doBatchCompare(text);
                else if (cmd == 8) reply = doMutations(text);
                else reply = "{\"crash\":\"unknown cmd\"}";
            } catch (Throwable e) {
                StringBuilder sb = new StringBuilder("{\"crash\":"); esc(sb, e.toString()); sb.append('}');
                reply = sb.toString();
            }
            byte[] ob = reply.getBytes(StandardCharsets.UTF_8);
            dos.writeInt(ob.length); dos.write(ob); dos.flush();
        }
    }
}

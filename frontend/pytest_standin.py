"""pytest plugin: run the upstream suite through the front-end stand-in (conformance evidence,
DESIGN §1.3) and, when HARVEST_OUT is set, record every public API call (the corpus, §2.6).
Usage: PYTHONPATH=/verif /venv/bin/python -m pytest -p frontend.pytest_standin ...
"""
import functools
import json
import os
import sys
from pathlib import Path

sys.path.insert(0, os.path.dirname(os.path.dirname(os.path.abspath(__file__))))
from frontend import fe  # noqa: E402

fe.install()

OUT = os.environ.get("HARVEST_OUT")
if OUT:
    import pandas as pd
    import vtlengine
    import vtlengine.API as API

    os.makedirs(OUT, exist_ok=True)

    def enc(x):
        if x is None or isinstance(x, (bool, int, float, str)):
            return x
        if isinstance(x, Path):
            return {"$path": str(x)}
        if isinstance(x, pd.DataFrame):
            return {"$df": json.loads(x.to_json(orient="split", date_format="iso")),
                    "$dtypes": [str(t) for t in x.dtypes]}
        if isinstance(x, dict):
            return {"$dict": [[enc(k), enc(v)] for k, v in x.items()]}
        if isinstance(x, (list, tuple)):
            return [enc(v) for v in x]
        return {"$opaque": type(x).__module__ + "." + type(x).__name__}

    def wrap(name):
        orig = getattr(API, name)

        @functools.wraps(orig)
        def w(*a, **k):
            rec = {"fn": name, "args": enc(list(a)), "kwargs": enc(k),
                   "test": os.environ.get("PYTEST_CURRENT_TEST", ""),
                   "env": {e: os.environ[e] for e in os.environ if e.startswith(("VTL_", "OUTPUT_NUMBER", "COMPARISON_"))}}
            try:
                r = orig(*a, **k)
                rec["outcome"] = "ok"
                return r
            except BaseException as e:
                rec["outcome"] = type(e).__name__
                rec["code"] = getattr(e, "code", None)
                raise
            finally:
                try:
                    s = json.dumps(rec, sort_keys=True, default=str)
                    with open(os.path.join(OUT, f"{os.getpid()}.jsonl"), "a") as f:
                        f.write(s + "\n")
                except Exception:
                    pass

        setattr(API, name, w)
        setattr(vtlengine, name, w)

    for n in ("run", "semantic_analysis", "prettify", "validate_dataset", "generate_sdmx", "run_sdmx"):
        wrap(n)

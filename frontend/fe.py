"""Front-end stand-in for the compiled ``vtl_cpp_parser`` extension (DESIGN.md §1.2).

The extension cannot be built in this sandbox.  This module has the same surface and is
pre-seeded into ``sys.modules`` before ``vtlengine`` is imported.  Parsing is done by a resident
Java host (``VtlParseServer``) that interprets the *repository's own* serialized ATNs with the stock
ANTLR runtime; every table used here is read from /repo at start-up, nothing is cached across runs.

Modelled rather than executed: the lifetime of the parse tree (``g_state`` in bindings.cpp).  Each
``ParseNode`` carries the generation of the parse that produced it; touching a node of an older
generation raises ``StaleParseTree`` (the observable stand-in for the use-after-free the real
extension would commit).
"""
import atexit
import json
import os
import re
import struct
import subprocess
import sys
import threading
import types

REPO = os.environ.get("VERIF_REPO", "/repo")
GDIR = os.path.join(REPO, "src/vtlengine/AST/Grammar")
CDIR = os.path.join(GDIR, "_cpp_parser")
HERE = os.path.dirname(os.path.abspath(__file__))
VERIF = os.path.dirname(HERE)
JAR = os.path.join(VERIF, "third_party", "antlr4-runtime-4.11.1.jar")
BUILD = os.path.join(VERIF, "build")
MODNAME = "vtlengine.AST.Grammar._cpp_parser.vtl_cpp_parser"


class StaleParseTree(RuntimeError):
    """A parse-tree node was used after a later parse() freed its tree."""


def _read(p):
    with open(p, encoding="utf-8") as f:
        return f.read()


def _enum_values(header):
    vals = {}
    for m in re.finditer(r"\b([A-Za-z_][A-Za-z0-9_]*) = (\d+)", header):
        vals.setdefault(m.group(1), int(m.group(2)))
    return vals


def _rule_functions(cpp):
    """rule name -> text of the generated rule function in Vtl.cpp"""
    out = {}
    pat = re.compile(r"^Vtl::(\w+)Context\* Vtl::(\w+)\((int precedence)?\) \{$", re.M)
    ms = list(pat.finditer(cpp))
    for i, m in enumerate(ms):
        end = cpp.find("\n}\n", m.end())
        out[m.group(2)] = (cpp[m.end():end], bool(m.group(3)))
    return out


def _alt_classes(cpp):
    """What the compiled parser really does: per rule, outer alternative -> context class, and for the
    left-recursive rules primary alternative -> class and precedence-loop alternative -> class."""
    res = {}
    for rule, (body, leftrec) in _rule_functions(cpp).items():
        base = rule[0].upper() + rule[1:] + "Context"
        if not leftrec:
            outer = {}
            # createInstance<Vtl::X>(_localctx); enterOuterAlt(_localctx, N)
            for m in re.finditer(
                r"(?:_localctx = _tracker\.createInstance<(?:Vtl::)?(\w+)>\(_localctx\);\s*)?enterOuterAlt\(_localctx, (\d+)\);",
                body,
            ):
                outer[int(m.group(2))] = m.group(1) or base
            res[rule] = {"leftrec": False, "outer": outer, "base": base}
        else:
            cut = body.find("_ctx->stop = _input->LT(-1);")
            prim_src, loop_src = body[:cut], body[cut:]
            prim = [m.group(1) for m in re.finditer(r"_localctx = _tracker\.createInstance<(?:Vtl::)?(\w+)>\(_localctx\);", prim_src)]
            loop = {}
            for m in re.finditer(
                r"case (\d+): \{\s*auto newContext = _tracker\.createInstance<(?:Vtl::)?(\w+)>\(", loop_src
            ):
                loop[int(m.group(1))] = m.group(2)
            res[rule] = {"leftrec": True, "prim": prim, "loop": loop, "base": base}
    return res


class _Tables:
    def __init__(self):
        h = _read(os.path.join(CDIR, "Vtl.h"))
        b = _read(os.path.join(CDIR, "bindings.cpp"))
        cpp = _read(os.path.join(CDIR, "Vtl.cpp"))
        self.enum = _enum_values(h)
        self.type_map = {}
        for m in re.finditer(r"g_type_map\[typeid\(Vtl::(\w+)\)\]\s*=\s*\{Vtl::(\w+),\s*(-?\d+)\}", b):
            self.type_map[m.group(1)] = (self.enum[m.group(2)], int(m.group(3)))
        self.attrs = {}
        for m in re.finditer(r'm\.attr\("(\w+)"\)\s*=\s*static_cast<int>\(Vtl::(\w+)\)', b):
            self.attrs[m.group(1)] = self.enum[m.group(2)]
        for m in re.finditer(r'm\.attr\("(\w+)"\)\s*=\s*(-?\d+)\s*;', b):
            self.attrs[m.group(1)] = int(m.group(2))
        for m in re.finditer(r'm\.attr\("(\w+)"\)\s*=\s*static_cast<int>\(antlr4::Token::EOF\)', b):
            self.attrs[m.group(1)] = -1
        mm = re.search(r"setPredictionMode\(\s*antlr4::atn::PredictionMode::(\w+)\s*\)", b)
        self.mode = {"SLL": "SLL", "LL": "LL", "LL_EXACT_AMBIG_DETECTION": "LLX"}[mm.group(1)] if mm else "LL"
        tw = re.search(r"TAB_WIDTH\s*=\s*(\d+)", b)
        self.tab_width = int(tw.group(1)) if tw else 4
        self.alt_classes = _alt_classes(cpp)


class TerminalNode:
    __slots__ = ("symbol_type", "text", "line", "column")
    is_terminal = True

    def __init__(self, t, text, line, col):
        self.symbol_type, self.text, self.line, self.column = t, text, line, col


class ParseNode:
    __slots__ = ("rule_index", "alt_index", "_children", "start_line", "start_column",
                 "stop_line", "stop_column", "stop_text", "_text", "_gen")
    is_terminal = False

    def _alive(self):
        if self._gen != _State.parses:
            _State.stale_events.append((self._gen, _State.parses, threading.current_thread().name))
            raise StaleParseTree("parse tree of parse #%d used after parse #%d" % (self._gen, _State.parses))

    @property
    def children(self):
        self._alive()
        return self._children

    @property
    def ctx_id(self):
        return (self.rule_index, self.alt_index)

    @property
    def text(self):
        self._alive()
        if self._text is None:
            out, stack = [], [self]
            while stack:
                n = stack.pop()
                if n.is_terminal:
                    out.append(n.text)
                else:
                    stack.extend(reversed(n._children))
            self._text = "".join(out)
        return self._text


class _State:
    proc = None
    rules = None
    literal = None
    symbolic = None
    tables = None
    input_text = ""
    comments = []
    error = None
    parses = 0
    stale_events = []
    lock = threading.Lock()      # protects the pipe only (tooling), not the engine
    cache = {}                   # (mode, text) -> raw JSON reply; parsing is a pure function of text + ATN
    cache_on = False
    requests = 0


def tables():
    if _State.tables is None:
        _State.tables = _Tables()
    return _State.tables


def _server():
    if _State.proc is None or _State.proc.poll() is not None or _State.proc_pid != os.getpid():
        _State.proc = subprocess.Popen(
            ["java", "-Xss512m", "-Xmx512m", "-XX:+UseSerialGC", "-cp", f"{JAR}:{BUILD}",
             "VtlParseServer", CDIR],
            stdin=subprocess.PIPE, stdout=subprocess.PIPE)
        _State.proc_pid = os.getpid()
        hs = json.loads(_State.proc.stdout.readline().decode("utf-8"))
        _State.rules, _State.literal, _State.symbolic = hs["rules"], hs["literal"], hs["symbolic"]
        atexit.register(shutdown)
    return _State.proc


_State.proc_pid = None


def shutdown():
    p = _State.proc
    if p is not None and _State.proc_pid == os.getpid() and p.poll() is None:
        try:
            p.stdin.close()
            p.wait(timeout=5)
        except Exception:
            p.kill()
    _State.proc = None


def request(cmd, payload):
    """raw request to the Java host -> decoded JSON"""
    data = payload.encode("utf-8")
    with _State.lock:
        p = _server()
        p.stdin.write(struct.pack(">ii", cmd, len(data)) + data)
        p.stdin.flush()
        hdr = p.stdout.read(4)
        if len(hdr) < 4:
            raise RuntimeError("parser host died")
        (n,) = struct.unpack(">i", hdr)
        raw = p.stdout.read(n)
        _State.requests += 1
    res = json.loads(raw.decode("utf-8"))
    if isinstance(res, dict) and "crash" in res:
        raise RuntimeError("parser host crashed: " + res["crash"])
    return res


def rule_names():
    _server_names()
    return _State.rules


def _server_names():
    with _State.lock:
        _server()


def _class_for(rule_name, a0, a1, is_rec_ctx):
    info = tables().alt_classes.get(rule_name)
    if info is None:
        return None
    if info["leftrec"]:
        if is_rec_ctx:
            return info["loop"].get(a1 or 1, info["base"])
        prim = info["prim"]
        i = (a0 or 1) - 1
        return prim[i] if 0 <= i < len(prim) else info["base"]
    outer = info["outer"]
    if len(outer) <= 1:
        return next(iter(outer.values()), info["base"])
    return outer.get(a0 or 1, info["base"])


def _build(nodes):
    """rebuild the tree from the flat pre-order list (iteratively: no recursion limit of our own), then
    resolve (rule, alternatives taken) -> context class -> (rule_index, alt_index) of bindings.cpp"""
    t = tables()
    rules = _State.rules
    gen = _State.parses
    root = None
    stack = []   # [node, remaining children]
    order = []   # rule nodes with their raw (rule, a0, a1)
    for r in nodes:
        if r[0] == 0:
            n = TerminalNode(r[1], r[2], r[3], r[4])
            nkids = -1
        else:
            _, ridx, a0, a1, sl, sc, el, ec, etext, nkids = r
            n = ParseNode()
            n.start_line, n.start_column, n.stop_line, n.stop_column, n.stop_text = sl, sc, el, ec, etext
            n._text = None
            n._children = []
            n._gen = gen
            n.rule_index, n.alt_index = ridx, -1
            order.append((n, ridx, a0, a1))
        if root is None:
            root = n
        if stack:
            stack[-1][0]._children.append(n)
            stack[-1][1] -= 1
        if nkids >= 0:
            stack.append([n, nkids])
        while stack and stack[-1][1] == 0:
            stack.pop()
    raw = {id(n): ridx for n, ridx, _, _ in order}
    for n, ridx, a0, a1 in order:
        kids = n._children
        is_rec = bool(kids) and (not kids[0].is_terminal) and raw[id(kids[0])] == ridx and a0 == 0
        cname = _class_for(rules[ridx], a0, a1, is_rec)
        if cname is not None and cname in t.type_map:
            n.rule_index, n.alt_index = t.type_map[cname]
        else:
            n.rule_index, n.alt_index = ridx, -1
    return root


def _source_line(text, line, col1):
    """port of extract_source_line_expanded (bindings.cpp); works on UTF-8 bytes like the C++ code"""
    tw = tables().tab_width
    src = text.encode("utf-8", "surrogatepass")
    if line < 1:
        return "", col1
    start, cur = 0, 1
    while cur < line and start < len(src):
        if src[start] == 0x0A:
            cur += 1
        start += 1
    if cur != line:
        return "", col1
    out = bytearray()
    orig, remapped = 1, col1
    i = start
    while i < len(src) and src[i] != 0x0A:
        c = src[i]
        if orig == col1:
            remapped = len(out) + 1
        if c == 0x09:
            out.extend(b" " * tw)
        elif c != 0x0D:
            out.append(c)
        orig += 1
        i += 1
    if col1 > orig:
        remapped = len(out) + 1
    return out.decode("utf-8", "replace"), remapped


MODES = {"SLL": 0, "LL": 1, "LLX": 2}


def parse(text, mode=None):
    t = tables()
    m = mode or os.environ.get("VERIF_PARSE_MODE") or t.mode
    key = (m, text)
    raw = _State.cache.get(key) if _State.cache_on else None
    if raw is None:
        raw = request(MODES[m], text)
        if _State.cache_on:
            _State.cache[key] = raw
    _State.parses += 1
    _State.input_text = text
    _State.comments = [{"type": c[0], "text": c[1], "line": c[2], "column": c[3]} for c in raw["comments"]]
    e = raw["error"]
    if e is None:
        _State.error = None
    else:
        sl, col = _source_line(text, e[0], e[1] + 1)
        _State.error = {"line": e[0], "column": col - 1, "message": e[2], "offending_text": e[3],
                        "source_line": sl, "underline_length": e[4]}
    return _build(raw["nodes"])


def get_input_text():
    return _State.input_text


def get_comments():
    return [dict(c) for c in _State.comments]


def get_syntax_error():
    return None if _State.error is None else dict(_State.error)


def compare_modes(text):
    return request(3, text)


def enumerate_tokens(k, alphabet, cmp=False, first=-1):
    return request(4, "%d %s %d\n%s" % (k, "cmp" if cmp else "sll", first, "\n".join(alphabet)))


def mutations(text, cmp=False):
    """every single-token deletion / duplication / adjacent swap of text, parsed in the JVM"""
    return request(8, ("cmp" if cmp else "sll") + "\n" + text)


def atn_facts():
    return request(5, "")


def install():
    """pre-seed sys.modules so that ``import vtlengine`` finds the stand-in; idempotent"""
    if MODNAME in sys.modules and getattr(sys.modules[MODNAME], "__verif_standin__", False):
        return sys.modules[MODNAME]
    mod = types.ModuleType(MODNAME)
    mod.__verif_standin__ = True
    mod.ParseNode, mod.TerminalNode = ParseNode, TerminalNode
    mod.parse, mod.get_input_text = parse, get_input_text
    mod.get_comments, mod.get_syntax_error = get_comments, get_syntax_error
    for k, v in tables().attrs.items():
        setattr(mod, k, v)
    sys.modules[MODNAME] = mod
    src = os.path.join(REPO, "src")
    if src not in sys.path:
        sys.path.insert(0, src)
    return mod


def generate_sentences():
    """one shortest sentence through every transition of the repository's parser ATN (set members expanded)"""
    return request(6, "")


def batch_compare(texts):
    return request(7, "\u0000".join(texts))
